"""C18 - cauchy_dot_product is the multivariate Cauchy product.

Cases: 2-4 factor series with compatible rectangular block shapes, 1-3 infinite dimensions,
integer / Gaussian-integer matrix blocks (exact in floating point) or exact sympy scalars with
``operator=mul``; hash-defined sparse ``zero`` pattern (optionally pre-declared through
``data``), ``one`` at zeroth-order diagonals; structures: free product, A^dagger.A, W.W with W
Hermitian, A^dagger.H.A sandwich (hermitian=True must not change any value), and a genuine
recurrence S = A + c (S.S) whose termination depends on skipping known-zero partners.
Oracle: brute-force sum over intermediate blocks and all splittings (vlib.cauchy.splits).
"""
from __future__ import annotations

import itertools

import numpy as np
from hypothesis import strategies as st

from vlib.cauchy import splits
from vlib.runner import Outcome

ID = "C18"
LEVEL = "exploration"
LEVEL_TEXT = (
    "Generated search: every requested element of the product series is compared exactly (integer arithmetic) with "
    "an independent brute-force sum over intermediate blocks and order splittings; hermitian=True vs the plain sum on "
    "products that are Hermitian by construction; eval logs of the factors decide the 'requested only if the "
    "complement is present' rule and causality; a recurrence through the product must terminate with the reference "
    "value. Holds on everything generated; no proof of absence."
)
LEVEL_NOTE = (
    "Trusted: the brute-force reference (vlib/cauchy.py splits + numpy integer matmul), sympy for exact scalars. "
    "Bounds: <= 4 factors, block grids <= 3x3, blocks <= 2x2, <= 3 infinite dimensions, total order <= 4. The known "
    "finding K2 class (two factors that are not mutual adjoints with hermitian=True) is excluded by construction."
)
TECHNIQUE = "property-based testing (Hypothesis) against a brute-force reference sum; call-log invariants + coverage-guided fuzzing stage (atheris/libFuzzer driving the same strategy and oracle)"
BUDGET = {"quick": 2500, "thorough": 80000}
FUZZ = {"quick": 3200, "thorough": 32000}  # executions of the coverage-guided stage (vlib/fuzz.py)
RULE = (
    "case = (structure in {free, adjoint_pair A^dag.A, hermitian_square W.W, sandwich A^dag.H.A, recurrence S=A+c(S.S)}, "
    "2-4 factors, block-grid dims 1-3, block sizes 1-2, 1-3 infinite dims, value mode int / complex-int / object-dtype matrices or "
    "sympy scalars with operator=mul, zero density, pre-declared zeros, identity starts, hermitian flag, request list). "
    "Non-trivial = some requested element has total order >= 2 with a non-empty reference sum of >= 2 terms AND "
    "(a zero/one sentinel takes part, or hermitian=True, or >= 3 factors, or >= 2 infinite dimensions)."
)
ASSUMPTIONS = [
    "hermitian=True is only generated for products that are Hermitian by construction with mutually adjoint factors "
    "(2 factors) or any Hermitian product (>= 3 factors); the 2-factor non-adjoint case is known finding K2",
    "`one` is only placed where the library documents it: zeroth-order diagonal of an identity-start series",
]
REQUIRED_CLASSES = {
    "all": ["structure=free", "structure=adjoint_pair", "structure=hermitian_square", "structure=sandwich",
            "structure=recurrence", "recurrence-lazy-zeroth-order", "hermitian_flag", "identity-in-hermitian-product", "mode=scalar", "mode=complex", "mode=object", "tiny-and-huge-blocks", "n_inf=3", "factors=4", "predeclared"]
}


# ------------------------------------------------------------------------ strategy
@st.composite
def _case(draw, tier):
    structure = draw(st.sampled_from(["free", "free", "adjoint_pair", "hermitian_square", "sandwich", "recurrence"]))
    n_inf = draw(st.integers(1, 3))
    mode = draw(st.sampled_from(["real", "complex", "scalar", "object"]))
    dmax = 3
    if structure == "free":
        k = draw(st.integers(2, 4))
        dims = [draw(st.integers(1, dmax)) for _ in range(k + 1)]
    elif structure in ("adjoint_pair",):
        p, q = draw(st.integers(1, dmax)), draw(st.integers(1, dmax))
        want_ident = draw(st.booleans())
        if want_ident:
            q = p  # A = 1 + A' needs a square block grid with matching block sizes
        dims = [q, p, q]
    elif structure == "hermitian_square":
        p = draw(st.integers(1, dmax))
        dims = [p, p, p]
    elif structure == "sandwich":
        p, q = draw(st.integers(1, dmax)), draw(st.integers(1, dmax))
        dims = [q, p, p, q]
    else:
        p = draw(st.integers(1, dmax))
        dims = [p, p, p]
    k = len(dims) - 1
    size_of = {}
    sizes = []
    for t, d in enumerate(dims):
        if mode == "scalar":
            sizes.append([1] * d)
        else:
            sizes.append([draw(st.integers(1, 2)) for _ in range(d)])
    # tie sizes where the structure identifies block spaces
    if structure == "adjoint_pair":
        sizes[2] = sizes[0]
        if want_ident:
            sizes[1] = sizes[0]
    elif structure in ("hermitian_square", "recurrence"):
        sizes[1] = sizes[0]
        sizes[2] = sizes[0]
    elif structure == "sandwich":
        sizes[2] = sizes[1]
        sizes[3] = sizes[0]
    hermitian_flag = False
    if structure in ("adjoint_pair", "hermitian_square", "sandwich"):
        hermitian_flag = draw(st.booleans())
    elif structure == "recurrence":
        hermitian_flag = draw(st.booleans())  # A is made Hermitian, c real
    identity = [False] * k
    if structure == "free":
        for t in range(k):
            if dims[t] == dims[t + 1] and sizes[t] == sizes[t + 1]:
                identity[t] = draw(st.booleans())
    maxtot = 3 if tier == "quick" else 4
    n_req = draw(st.integers(1, 5))
    requests = []
    for _ in range(n_req):
        orders = [draw(st.integers(0, maxtot)) for _ in range(n_inf)]
        while sum(orders) > maxtot:
            orders[orders.index(max(orders))] -= 1
        requests.append([draw(st.integers(0, dims[0] - 1)), draw(st.integers(0, dims[-1] - 1))] + orders)
    ident_pair = structure == "adjoint_pair" and want_ident
    return {
        "ident_pair": ident_pair,
        "structure": structure,
        "n_inf": n_inf,
        "mode": mode,
        "dims": dims,
        "sizes": sizes,
        "salt": draw(st.integers(0, 10**6)),
        "zmod": [draw(st.sampled_from([2, 3, 5, 1000])) for _ in range(k)],
        "predeclare": [draw(st.booleans()) for _ in range(k)],
        "identity": identity,
        "hermitian_flag": hermitian_flag,
        "c": draw(st.sampled_from([1, -1, 2, -2])),
        "requests": requests,
        "ask_on": draw(st.sampled_from(["product", "both"])),
        "tiny": draw(st.integers(0, 4)) == 0,
    }


def strategy(tier):
    return _case(tier)


# --------------------------------------------------------------------- value model
def _h(*xs):
    v = 0x9E3779B1
    for x in xs:
        v = (v ^ (int(x) + 0x7F4A7C15)) * 0x85EBCA6B % (2**32)
        v ^= v >> 13
    return v


def _tiny_active(c):
    """The "physical units" scaling is applied only where every term of every sum carries the same power of the scale
    (one element of each factor): not in the recurrence S = A + c S.S and not when an identity sentinel stands in for an
    element - there terms of different magnitude are added and the floating-point reference would no longer be exact."""
    return bool(c.get("tiny")) and c["mode"] in ("real", "complex") and c["structure"] != "recurrence" and not any(c["identity"]) and not c.get("ident_pair")


class Factors:
    """Reference values of every factor: value(t, idx) -> None (absent) | 'one' | array / sympy number."""

    def __init__(self, case):
        self.c = case
        self.k = len(case["dims"]) - 1
        self.memo = {}
        if case["mode"] == "scalar":
            import sympy

            self.sympy = sympy

    def _raw(self, tag, i, j, orders, rows, cols):
        """Hash-defined base block (independent of any adjoint structure); None if absent."""
        c = self.c
        zm = c["zmod"][tag % len(c["zmod"])]
        if _h(c["salt"], 17, tag, i, j, *orders) % zm == 0:
            return None
        re = np.array([[_h(c["salt"], 1, tag, i, j, r, s, *orders) % 7 - 3 for s in range(cols)] for r in range(rows)])
        if c["mode"] == "real":
            arr = re.astype(np.int64)
        else:
            im = np.array([[_h(c["salt"], 2, tag, i, j, r, s, *orders) % 5 - 2 for s in range(cols)] for r in range(rows)])
            arr = re + 1j * im
        if c["mode"] == "scalar":
            z = arr[0, 0]
            val = self.sympy.Integer(int(z.real)) + self.sympy.I * self.sympy.Integer(int(z.imag))
            return None if val == 0 else val
        if not arr.any():
            return None
        if _tiny_active(c):
            # physical units: the blocks of every second series are of order 1e-9, the others of order 1e9 (exact
            # powers of two, so the reference stays exact).  A small block is not an absent block.
            arr = arr * (2.0**-30 if tag % 2 == 0 else 2.0**30)
        if c["mode"] == "object":
            # object-dtype blocks holding Python complex numbers (what exact or extended-precision element types look
            # like to numpy: `np.isrealobj` is True for them although the entries are not real)
            arr = np.array([[complex(z) for z in row] for row in arr], dtype=object)
        return arr

    def dag(self, v):
        if v is None or isinstance(v, str):
            return v
        if self.c["mode"] == "scalar":
            return self.sympy.conjugate(v)
        return v.conj().T

    def _herm_base(self, tag, i, j, orders, size):
        """Block (i,j) of a Hermitian block series (W[i,j,n] = W[j,i,n]^dagger)."""
        if i > j:
            return self.dag(self._herm_base(tag, j, i, orders, size))
        v = self._raw(tag, i, j, orders, size[i], size[j])
        if i == j and v is not None:
            v = v + self.dag(v)
            if self.c["mode"] == "scalar":
                v = None if v == 0 else v
            elif not np.any(v):
                v = None
        return v

    def value(self, t, idx):
        key = (t, idx)
        if key not in self.memo:
            self.memo[key] = self._value(t, idx)
        return self.memo[key]

    def _value(self, t, idx):
        c = self.c
        i, j, orders = idx[0], idx[1], tuple(idx[2:])
        s = c["sizes"]
        st_ = c["structure"]
        if st_ == "free":
            if c["identity"][t] and sum(orders) == 0:
                return "one" if i == j else None
            return self._raw(t, i, j, orders, s[t][i], s[t + 1][j])
        if st_ == "adjoint_pair":  # factors: A^dagger (q x p), A (p x q)
            if c.get("ident_pair") and sum(orders) == 0:
                return "one" if i == j else None  # A = 1 + A' (like U), so A^dagger = 1 + A'^dagger
            if t == 1:
                return self._raw(0, i, j, orders, s[1][i], s[2][j])
            return self.dag(self._raw(0, j, i, orders, s[1][j], s[2][i]))
        if st_ == "hermitian_square":
            return self._herm_base(0, i, j, orders, s[0])
        if st_ == "sandwich":  # A^dagger (q x p), H (p x p) Hermitian, A (p x q)
            if t == 1:
                return self._herm_base(1, i, j, orders, s[1])
            if t == 2:
                return self._raw(0, i, j, orders, s[2][i], s[3][j])
            return self.dag(self._raw(0, j, i, orders, s[2][j], s[3][i]))
        raise AssertionError(st_)

    def predeclared_zero(self, t, idx):
        return bool(self.c["predeclare"][t]) and self.value(t, idx) is None and _h(self.c["salt"], 99, t, *idx) % 2 == 0


def _mul(a, b, scalar):
    return a * b if scalar else a @ b


def brute_product(getter, dims, idx, k, scalar):
    """sum over intermediate blocks and splittings; returns (value|None|'one', n_terms)."""
    i, j, n = idx[0], idx[1], tuple(idx[2:])
    total, n_terms = None, 0
    for mids in itertools.product(*[range(d) for d in dims[1:-1]]):
        blocks = (i,) + mids + (j,)
        for split in splits(n, k):
            vals = []
            for t in range(k):
                v = getter(t, (blocks[t], blocks[t + 1]) + split[t])
                if v is None:
                    vals = None
                    break
                vals.append(v)
            if vals is None:
                continue
            n_terms += 1
            vals = [v for v in vals if not isinstance(v, str)]
            if not vals:
                term = "one"
            else:
                term = vals[0]
                for v in vals[1:]:
                    term = _mul(term, v, scalar)
            if total is None:
                total = term
            elif isinstance(total, str) or isinstance(term, str):
                raise AssertionError("generator produced a sum mixing `one` with values")
            else:
                total = total + term
    return total, n_terms


def _same(lib, ref, zero, one, scalar):
    """Compare by value; sentinels: zero == absent == all-zero value, one == identity."""
    import sympy

    if ref is None:
        if lib is zero:
            return True
        if lib is one:
            return False
        return (sympy.simplify(lib) == 0) if scalar else (not np.any(np.asarray(lib)))
    if isinstance(ref, str):
        if lib is one:
            return True
        if lib is zero:
            return False
        if scalar:
            return sympy.simplify(lib - 1) == 0
        a = np.asarray(lib)
        return a.ndim == 2 and a.shape[0] == a.shape[1] and np.array_equal(a, np.eye(a.shape[0]))
    if lib is zero:
        return (sympy.simplify(ref) == 0) if scalar else (not np.any(ref))
    if lib is one:
        return False
    if scalar:
        return sympy.simplify(sympy.expand(lib - ref)) == 0
    a = np.asarray(lib)
    return a.shape == ref.shape and np.array_equal(a, ref)


# ------------------------------------------------------------------------ check_case
def check_case(case, enforce_all=False):
    from operator import mul

    from pymablock.series import BlockSeries, cauchy_dot_product, one, zero

    out = Outcome()
    F = Factors(case)
    k = F.k
    dims = case["dims"]
    n_inf = case["n_inf"]
    scalar = case["mode"] == "scalar"
    structure = case["structure"]
    out.labels += [f"structure={structure}", f"mode={case['mode']}", f"n_inf={n_inf}", f"factors={k}"]
    if _tiny_active(case):
        # (not for the recurrence: S = A + c S.S adds terms of different powers of the scale, which would make the
        # floating-point reference inexact)
        out.labels.append("tiny-and-huge-blocks")
    if case["hermitian_flag"]:
        out.labels.append("hermitian_flag")
    log = []  # (t, idx) in evaluation order
    current = {"req": None}
    maxo = [max(r[2 + q] for r in case["requests"]) for q in range(n_inf)]

    def to_lib(v):
        # hand the library its own copy: an in-place update of a cached factor element must not reach the oracle
        return zero if v is None else one if isinstance(v, str) else (v.copy() if isinstance(v, np.ndarray) else v)

    kwargs = {"operator": mul} if scalar else {}

    if structure == "recurrence":
        return _check_recurrence(case, out, F, kwargs, scalar, enforce_all)

    series = []
    any_predeclared = False
    for t in range(k):
        data = {}
        for idx in itertools.product(range(dims[t]), range(dims[t + 1]), *[range(m + 1) for m in maxo]):
            if F.predeclared_zero(t, idx):
                data[idx] = zero
                any_predeclared = True
            elif ((case["structure"] == "free" and case["identity"][t]) or case.get("ident_pair")) and sum(idx[2:]) == 0:
                data[idx] = to_lib(F.value(t, idx))

        def ev(*index, t=t):
            idx = tuple(int(q) for q in index)
            log.append((t, idx, current["req"]))
            return to_lib(F.value(t, idx))

        series.append(BlockSeries(eval=ev, data=data, shape=(dims[t], dims[t + 1]), n_infinite=n_inf, name=f"F{t}"))
    if any_predeclared:
        out.labels.append("predeclared")
    try:
        prod = cauchy_dot_product(*series, hermitian=case["hermitian_flag"], **kwargs)
    except Exception as exc:  # noqa: BLE001
        out.fail("exception", f"cauchy_dot_product raised {type(exc).__name__}: {exc}")
        return out
    if tuple(prod.shape) != (dims[0], dims[-1]) or prod.n_infinite != n_inf:
        out.fail("shape", f"product shape {prod.shape}/{prod.n_infinite}, expected {(dims[0], dims[-1])}/{n_inf}")
        return out
    sentinel_in_play = any(case["identity"]) or any(z < 1000 for z in case["zmod"])
    for req in case["requests"]:
        idx = tuple(req)
        current["req"] = idx
        start = len(log)
        try:
            got = prod[idx]
        except Exception as exc:  # noqa: BLE001
            out.fail("exception", f"product{list(idx)} raised {type(exc).__name__}: {exc}")
            return out
        ref, n_terms = brute_product(F.value, dims, idx, k, scalar)
        if not _same(got, ref, zero, one, scalar):
            out.fail("value", f"product{list(idx)} = {_show(got)}, reference sum = {_show(ref)} ({n_terms} terms)")
            return out
        n = idx[2:]
        # causality + row/column discipline of every factor evaluation made by this request
        for t, fidx, _ in log[start:]:
            if any(a > b for a, b in zip(fidx[2:], n)):
                out.fail("causality", f"request {list(idx)} evaluated factor {t} at {list(fidx)} (order above the request)")
                return out
        if k == 2:
            i, j = idx[0], idx[1]
            for t, fidx, _ in log[start:]:
                rest = tuple(a - b for a, b in zip(n, fidx[2:]))
                pairs = [(i, j)] + ([(j, i)] if case["hermitian_flag"] else [])
                if t == 0:
                    partners = [(1, (fidx[1], b) + rest) for (a, b) in pairs if fidx[0] == a]
                else:
                    partners = [(0, (a, fidx[0]) + rest) for (a, b) in pairs if fidx[1] == b]
                if not partners:
                    out.fail("stray-evaluation", f"request {list(idx)} evaluated factor {t} at {list(fidx)} (foreign row/column)")
                    return out
                if sum(n) > 0 and tuple(fidx[2:]) == tuple(n) and all(F.value(pt, pidx) is None for pt, pidx in partners):
                    # documented (product_by_order): "Only queries the highest order of a series if the other series has
                    # some 0th order terms. This is needed to support recurrent definitions."  The partner of a
                    # full-order element is the zeroth-order element of the other factor; here it is absent - whether
                    # pre-declared or a zero that its eval returns
                    out.fail(
                        "highest-order-without-zeroth-partner",
                        f"request {list(idx)} evaluated factor {t} at its full order {list(fidx)} although the zeroth-order partner element(s) of the other factor vanish",
                    )
                    return out
                if all(F.predeclared_zero(pt, pidx) for pt, pidx in partners):
                    out.fail(
                        "needless-evaluation",
                        f"request {list(idx)} evaluated factor {t} at {list(fidx)} although its partner is a pre-declared zero",
                    )
                    return out
        if sum(n) >= 2 and n_terms >= 2 and (sentinel_in_play or case["hermitian_flag"] or k >= 3 or n_inf >= 2):
            out.nontrivial = True
        out.info["max_terms"] = max(out.info.get("max_terms", 0), n_terms)
    # the factors' own (cached) elements must still hold the values they were given: no in-place accumulation
    for t, fidx, _ in log:
        try:
            cur = series[t][fidx]
        except Exception as exc:  # noqa: BLE001
            out.fail("exception", f"re-reading factor {t} at {list(fidx)} raised {type(exc).__name__}: {exc}")
            return out
        if not _same(cur, F.value(t, fidx), zero, one, scalar):
            out.fail("factor-mutated", f"element {list(fidx)} of factor {t} changed while the product was evaluated: now {_show(cur)}, given {_show(F.value(t, fidx))}")
            return out
    if case.get("ident_pair"):
        out.labels.append("identity-in-hermitian-product" if case["hermitian_flag"] else "identity-in-adjoint-pair")
    return out


def _check_recurrence(case, out, F, kwargs, scalar, enforce_all):
    """S[n] = A[n] + c (S.S)[n], S[0] = 0 pre-declared; A Hermitian block series."""
    from pymablock.series import BlockSeries, cauchy_dot_product, one, zero

    dims = case["dims"]
    p = dims[0]
    n_inf = case["n_inf"]
    c = case["c"]
    sizes = case["sizes"][0]
    zero_order = (0,) * n_inf

    def A(idx):
        if sum(idx[2:]) == 0:
            return None
        return F._herm_base(0, idx[0], idx[1], tuple(idx[2:]), sizes)

    memo = {}

    def S_ref(t, idx):  # t ignored: both factors are S
        if idx not in memo:
            if sum(idx[2:]) == 0:
                memo[idx] = None
            else:
                a = A(idx)
                pr, _ = brute_product(S_ref_lower(idx[2:]), dims, idx, 2, scalar)
                v = a
                if pr is not None:
                    v = c * pr if v is None else v + c * pr
                memo[idx] = v
        return memo[idx]

    def S_ref_lower(n):
        def getter(t, fidx):
            if tuple(fidx[2:]) == tuple(n) or sum(fidx[2:]) == 0:
                return None  # partner is the zeroth order, which vanishes
            return S_ref(t, fidx)

        return getter

    holder = {}
    evals = []

    def ev(*index):
        idx = tuple(int(q) for q in index)
        evals.append(idx)
        if sum(idx[2:]) == 0:
            return zero  # lazy variant: the vanishing zeroth order is only known once it has been evaluated
        a = A(idx)
        pr = holder["prod"][idx]
        v = zero if a is None else a
        if pr is not zero:
            v = c * pr if v is zero else v + c * pr
        return v

    data = {(i, j) + zero_order: zero for i in range(p) for j in range(p)}
    if not case["predeclare"][0]:
        data = {}
        out.labels.append("recurrence-lazy-zeroth-order")
    S = BlockSeries(eval=ev, data=data, shape=(p, p), n_infinite=n_inf, name="S")
    holder["prod"] = cauchy_dot_product(S, S, hermitian=case["hermitian_flag"], **kwargs)
    for req in case["requests"]:
        idx = tuple(req)
        for which in (["product", "S"] if case["ask_on"] == "both" else ["product"]):
            try:
                got = holder["prod"][idx] if which == "product" else S[idx]
            except RuntimeError as exc:
                out.fail("recurrence-diverges", f"{which}{list(idx)} raised RuntimeError: {str(exc)[:200]}")
                return out
            except Exception as exc:  # noqa: BLE001
                out.fail("exception", f"{which}{list(idx)} raised {type(exc).__name__}: {exc}")
                return out
            if which == "S":
                ref = S_ref(0, idx)
                n_terms = 2
            else:
                ref, n_terms = brute_product(S_ref, dims, idx, 2, scalar)
            if not _same(got, ref, zero, one, scalar):
                out.fail("value", f"recurrence {which}{list(idx)} = {_show(got)}, reference = {_show(ref)}")
                return out
            if sum(idx[2:]) >= 3 and n_terms >= 2:
                out.nontrivial = True
    for e in evals:
        if any(a > b for a, b in zip(e[2:], [max(r[2 + q] for r in case["requests"]) for q in range(n_inf)])):
            out.fail("causality", f"recurrence evaluated S at {list(e)} beyond every requested order")
            break
    return out


def _show(v):
    if v is None:
        return "absent"
    if isinstance(v, str):
        return v
    if isinstance(v, np.ndarray):
        return str(v.tolist())
    return repr(v)
