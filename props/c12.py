"""C12 - lazy and causal: order n uses only Hamiltonian terms of order <= n, each at most once."""
from __future__ import annotations

import warnings

import numpy as np
from hypothesis import strategies as st

from vlib import bd_checks
from vlib.cauchy import orders_upto
from vlib.gen_matrix import order_key, problems, to_oracle
from vlib.instrument import implicit_kwargs, logged_hamiltonian
from vlib.runner import Outcome

ID = "C12"
LEVEL = "exploration"
LEVEL_TEXT = (
    "Generated search with a user-defined, logging Hamiltonian BlockSeries (blocked, or matrix-valued and split by "
    "subspace_indices; numeric or sympy elements; terms at arbitrary multi-orders including gaps): (a) after "
    "block_diagonalize returns the call log contains only zeroth-order indices; (b) for every request of a drawn "
    "schedule the indices logged during that request are <= the requested multi-order componentwise and no index "
    "is ever evaluated twice; (c) metamorphic: a fresh computation on a Hamiltonian whose terms outside the cone of "
    "the request raise AssertionError returns the same value. Hermitian and non-Hermitian mode. No proof."
)
LEVEL_NOTE = (
    "Trusted: the logging eval callbacks (vlib/instrument.py). Bounds: <= 4 blocks, N <= 7, <= 3 parameters, "
    "requests of total order <= 4, <= 6 requests per schedule."
)
TECHNIQUE = "property-based testing (Hypothesis) with call-log invariants and a poisoned-input metamorphic relation + coverage-guided fuzzing stage (atheris/libFuzzer driving the same strategy and oracle, thorough tier only)"
BUDGET = {"quick": 1600, "thorough": 40000}
FUZZ = {"quick": 0, "thorough": 16000}  # executions of the coverage-guided stage (vlib/fuzz.py)
SHRINK_SECONDS = {"quick": 30, "thorough": 150}
RULE = (
    "case = (problem from vlib.gen_matrix.problems with extra higher-order terms, form in {blocked, scalar, scalar in implicit mode}, element "
    "type in {numpy, sympy}, schedule of <= 6 requests (series, block, multi-order) plus an optional paired-list request naming 2-3 multi-orders at once). Non-trivial = some term is defined "
    "outside the cone of some request AND a term of total order >= 2 lies inside the cone of some request of total "
    "order >= 2."
)
ASSUMPTIONS = ["the user's series caches its own elements (it is a BlockSeries), so a second evaluation can only come from the library deleting input terms"]
REQUIRED_CLASSES = {"all": ["form=blocked", "form=scalar", "form=scalar_implicit", "paired-list-request", "elements=sympy", "mode=nonhermitian", "params=2", "params=3", "terms-outside-cone"]}


def strategy(tier):
    herm = problems(tier, hermitian=True, reprs=("dense",), max_K=3)
    nh = problems(tier, hermitian=False, complex_energy=True, reprs=("dense",), max_K=3)

    @st.composite
    def cases(draw):
        p = draw(st.one_of(herm, herm, nh))
        k = p["n_params"]
        nb = len(p["blocks"])
        # terms at arbitrary multi-orders, including gaps: copy first-order matrices to drawn higher orders
        import itertools

        higher = [o for o in itertools.product(range(4), repeat=k) if 2 <= sum(o) <= 3]
        first = [s for s in p["terms"] if sum(order_key(s)) == 1]
        terms = dict(p["terms"])
        for o in draw(st.lists(st.sampled_from(higher), min_size=0, max_size=3, unique=True)):
            terms[",".join(map(str, o))] = p["terms"][draw(st.sampled_from(first))]
        p = dict(p, terms=terms)
        if nb >= 2 and draw(st.integers(0, 5)) == 0:
            # two blocks that share an unperturbed energy but are decoupled at every order (legal: one of them couples to
            # nothing outside itself, so no Sylvester equation between the two ever has a right-hand side)
            b1 = draw(st.integers(0, nb - 1))
            b2 = draw(st.sampled_from([b for b in range(nb) if b != b1]))
            s1 = [q for q, a in enumerate(p["assign"]) if a == b1]
            s2 = [q for q, a in enumerate(p["assign"]) if a == b2]
            en, im = list(p["energy"]), list(p["eimag"])
            en[s2[0]], im[s2[0]] = en[s1[0]], im[s1[0]]
            cut = {}
            for key, M in p["terms"].items():
                cut[key] = [[[0, 0] if ((x in s2) != (y in s2)) else list(M[x][y]) for y in range(len(M))] for x in range(len(M))]
            if any(en) or any(im):  # (an identically vanishing H_0 is rejected by design)
                p = dict(p, energy=en, eimag=im, terms=cut, selection={"kind": "none", "full": [], "masks": {}}, shared_decoupled=True)
        reqs = []
        for _ in range(draw(st.integers(1, 6))):
            n = [draw(st.integers(0, 3)) for _ in range(k)]
            while sum(n) > (4 if k == 1 else 3):
                n[n.index(max(n))] -= 1
            reqs.append([draw(st.sampled_from(["H_tilde", "U", "U_inv"])), draw(st.integers(0, nb - 1)), draw(st.integers(0, nb - 1))] + n)
        # one more request that names several multi-orders at once through paired index lists, numpy style:
        # series[i, j, [2, 1, 0], [0, 1, 2]] asks for the orders (2,0), (1,1), (0,2) - and for nothing else
        multi = None
        if k >= 2 and draw(st.booleans()):
            tot = draw(st.integers(1, 3 if k == 2 else 2))
            pool = [o for o in itertools.product(range(tot + 1), repeat=k) if sum(o) == tot]
            chosen = draw(st.lists(st.sampled_from(pool), min_size=2, max_size=3, unique=True))
            multi = [draw(st.sampled_from(["H_tilde", "U", "U_inv"])), draw(st.integers(0, nb - 1)), draw(st.integers(0, nb - 1)), [list(o) for o in chosen]]
        form = draw(st.sampled_from(["blocked", "scalar", "scalar_implicit"]))
        symbolic = draw(st.integers(0, 3)) == 0 and len(p["assign"]) <= 4
        return {"problem": p, "form": form, "symbolic": symbolic, "requests": reqs, "poison_for": draw(st.integers(0, 5)), "multi": multi}

    return cases()


def _le(m, n):
    return all(a <= b for a, b in zip(m, n))


def _orders_of(idx, form):
    return idx[2:] if form == "blocked" else idx


def _val(v, exact):
    from pymablock.series import one, zero

    if v is zero:
        return "zero"
    if v is one:
        return "one"
    from scipy.sparse.linalg import LinearOperator

    if isinstance(v, LinearOperator):  # blocks that involve the implicit subspace
        return np.asarray(v @ np.eye(v.shape[1]), dtype=complex)
    return to_oracle(v, False)


def check_case(case, enforce_all=False):
    from pymablock import block_diagonalize

    out = Outcome()
    p = case["problem"]
    form, symbolic = case["form"], case["symbolic"]
    out.labels = bd_checks.labels_for(p) + [f"form={form}", "elements=sympy" if symbolic else "elements=numpy", "mode=hermitian" if p["hermitian"] else "mode=nonhermitian"]
    if p.get("shared_decoupled"):
        out.labels.append("blocks-share-energy-but-decoupled")
    k = p["n_params"]
    zero_order = (0,) * k
    log = []
    lib_form = form
    if form == "scalar_implicit":
        # implicit mode: whole-matrix lazy series, eigenvectors of all blocks but the last, default (direct) solver
        lib_form = "scalar"
        # (with a level shared between an explicit and the implicit block E - H_0 is singular on the complement: the
        # decoupled-degenerate class is legal in explicit mode only)
        if len(p["blocks"]) < 2 or symbolic or p.get("shared_decoupled"):
            form = "scalar"
            out.labels[-3] = "form=scalar"

    def implicit(kw):
        return implicit_kwargs(p, kw) if form == "scalar_implicit" else kw

    H, kwargs = logged_hamiltonian(p, form=lib_form, log=log, symbolic=symbolic)
    kwargs = implicit(kwargs)
    try:
        with warnings.catch_warnings():
            warnings.simplefilter("ignore")
            outputs = dict(zip(("H_tilde", "U", "U_inv"), block_diagonalize(H, **kwargs)))
    except Exception as exc:  # noqa: BLE001
        out.fail("exception", f"block_diagonalize raised {type(exc).__name__}: {str(exc)[:200]}")
        return out
    eager = [i for i in log if _orders_of(i, form) != zero_order]
    if eager:
        out.fail("eager-definition", f"defining the block diagonalization evaluated perturbative terms {eager[:4]}")
        return out
    term_orders = {order_key(s) for s in p["terms"]}
    seen = set(log)
    if len(seen) != len(log):
        out.fail("evaluated-twice", "a zeroth-order Hamiltonian term was evaluated twice during the definition")
        return out
    values = []
    outside = inside2 = False
    for r in case["requests"]:
        name, i, j, n = r[0], r[1], r[2], tuple(r[3:])
        start = len(log)
        try:
            with warnings.catch_warnings():
                warnings.simplefilter("ignore")
                v = outputs[name][(i, j) + n]
        except Exception as exc:  # noqa: BLE001
            out.fail("exception", f"{name}[{i},{j},{list(n)}] raised {type(exc).__name__}: {str(exc)[:200]}")
            return out
        values.append(_val(v, False))
        for idx in log[start:]:
            m = _orders_of(idx, form)
            if not _le(m, n):
                out.fail("acausal", f"request {name}[{i},{j},{list(n)}] evaluated the Hamiltonian term of order {list(m)}")
                return out
            if idx in seen:
                out.fail("evaluated-twice", f"Hamiltonian element {list(idx)} evaluated a second time (during {name}[{i},{j},{list(n)}])")
                return out
            seen.add(idx)
        if any(not _le(o, n) for o in term_orders):
            outside = True
        if sum(n) >= 2 and any(sum(o) >= 2 and _le(o, n) for o in term_orders):
            inside2 = True
    if case.get("multi"):
        name, i, j, orders_m = case["multi"]
        orders_m = [tuple(o) for o in orders_m]
        item = (i, j) + tuple([o[q] for o in orders_m] for q in range(k))
        start = len(log)
        try:
            with warnings.catch_warnings():
                warnings.simplefilter("ignore")
                outputs[name][item]
        except Exception as exc:  # noqa: BLE001
            out.fail("exception", f"{name}{list(item)} raised {type(exc).__name__}: {str(exc)[:200]}")
            return out
        out.labels.append("paired-list-request")
        for idx in log[start:]:
            m = _orders_of(idx, form)
            if not any(_le(m, n) for n in orders_m):
                out.fail("acausal", f"request {name}{list(item)} (orders {orders_m}) evaluated the Hamiltonian term of order {list(m)}")
                return out
            if idx in seen:
                out.fail("evaluated-twice", f"Hamiltonian element {list(idx)} evaluated a second time (during {name}{list(item)})")
                return out
            seen.add(idx)
        if any(not any(_le(o, n) for n in orders_m) for o in term_orders):
            outside = True
    if outside:
        out.labels.append("terms-outside-cone")
    # (b') the documented way to rotate an operator, U_inv . H . U as a Cauchy product of the outputs with the user's
    # series, must be just as causal - also on its lower blocks, which the hermitian shortcut takes from the upper ones
    if form == "blocked" and p["hermitian"] and not symbolic:
        from pymablock.series import cauchy_dot_product

        r = case["requests"][case["poison_for"] % len(case["requests"])]
        i, j, n = max(r[1], r[2]), min(r[1], r[2]), tuple(r[3:])
        try:
            rotated = cauchy_dot_product(outputs["U_inv"], H, outputs["U"], hermitian=True)
            start = len(log)
            with warnings.catch_warnings():
                warnings.simplefilter("ignore")
                rotated[(i, j) + n]
        except Exception as exc:  # noqa: BLE001
            out.fail("exception", f"(U_inv H U)[{i},{j},{list(n)}] raised {type(exc).__name__}: {str(exc)[:200]}")
            return out
        out.labels.append("rotated-product")
        for idx in log[start:]:
            if not _le(_orders_of(idx, form), n):
                out.fail("acausal", f"request (U_inv H U)[{i},{j},{list(n)}] evaluated the Hamiltonian term of order {list(_orders_of(idx, form))}")
                return out
            if idx in seen:
                out.fail("evaluated-twice", f"Hamiltonian element {list(idx)} evaluated a second time (during (U_inv H U)[{i},{j},{list(n)}])")
                return out
            seen.add(idx)
    # (c) poisoned fresh computation for one request
    r = case["requests"][case["poison_for"] % len(case["requests"])]
    name, i, j, n = r[0], r[1], r[2], tuple(r[3:])
    Hp, kwargs_p = logged_hamiltonian(p, form=lib_form, symbolic=symbolic, poison=lambda o: not _le(o, n))
    kwargs_p = implicit(kwargs_p)
    try:
        with warnings.catch_warnings():
            warnings.simplefilter("ignore")
            outs_p = dict(zip(("H_tilde", "U", "U_inv"), block_diagonalize(Hp, **kwargs_p)))
            vp = _val(outs_p[name][(i, j) + n], False)
    except AssertionError as exc:
        out.fail("acausal", f"fresh request {name}[{i},{j},{list(n)}] touched a term outside its cone: {exc}")
        return out
    except Exception as exc:  # noqa: BLE001
        out.fail("exception", f"poisoned computation raised {type(exc).__name__}: {str(exc)[:200]}")
        return out
    ref = values[case["poison_for"] % len(case["requests"])]
    same = (isinstance(vp, str) and isinstance(ref, str) and vp == ref) or (
        not isinstance(vp, str) and not isinstance(ref, str) and vp.shape == ref.shape
        and float(np.abs(vp - ref).max() if vp.size else 0.0) <= 1e-12 * max(1.0, float(np.abs(ref).max() if ref.size else 0.0))
    )
    if not same and not (isinstance(vp, str) != isinstance(ref, str) and _is_zero_pair(vp, ref)):
        out.fail("depends-on-other-terms", f"{name}[{i},{j},{list(n)}] changes when terms outside its cone are altered")
        return out
    out.nontrivial = bool(outside and inside2)
    return out


def _is_zero_pair(a, b):
    arr = a if not isinstance(a, str) else b
    s = a if isinstance(a, str) else b
    return s == "zero" and not np.any(arr)
