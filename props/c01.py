"""C01 - Hermitian: U^dagger H U equals H_tilde on kept elements and vanishes on eliminated ones."""
from __future__ import annotations

from vlib import bd_checks
from vlib.gen_matrix import problems
from vlib.runner import Outcome

ID = "C01"
LEVEL = "exploration"
LEVEL_TEXT = (
    "Generated search over block layouts, parameter counts, multi-orders, value types (dense / sparse / exact "
    "rational via sympy), degeneracy patterns and selections: the triple Cauchy product U_inv.H.U is formed from the "
    "returned U series and the *input* terms with an independent Cauchy algebra and compared with H_tilde on the "
    "kept set (recomputed by the oracle) and with zero on the eliminated set, at every multi-order up to K; exact "
    "equality in exact mode, 1e-9 x magnitude in floating point. Holds on everything generated; no proof."
)
LEVEL_NOTE = (
    "Trusted: vlib/cauchy.py (brute-force splittings), vlib/exact.py Gaussian rationals, the oracle's kept-mask "
    "rule, numpy. Bounds: <= 4 blocks of size <= 3 (N <= 7; thorough N <= 10), <= 3 parameters, total order <= 4 "
    "(thorough 5), entries small dyadic rationals so that float input equals exact input."
)
TECHNIQUE = "property-based testing (Hypothesis) with an independent Cauchy-product oracle; float + exact arithmetic"
BUDGET = {"quick": 1200, "thorough": 40000}
SHRINK_SECONDS = {"quick": 40, "thorough": 200}
RULE = (
    "case = vlib.gen_matrix.problems(hermitian=True): 1-4 blocks (sizes 1-3, states optionally interleaved), "
    "spectrum built by construction (cross-block gaps >= 2, in-block equal / partly equal / distinct), 1-3 "
    "parameters, first-order terms plus optional terms of total order 2-3, blocks of terms dropped at random, "
    "selection none / fully_diagonalize tuple / boolean masks, representation dense / csr array / csr matrix / integer dtype / sympy-exact, input form whole matrices + subspace_indices / nested lists of separated blocks / whole matrices + unit eigenvectors, spectrum classes far-offset (4096, gaps 1/32), almost-equal levels (2^-44 apart), a vanishing H_0 block at a drawn position, K = 4 for small 3-parameter problems. "
    "Non-trivial = eliminated set non-empty AND some perturbation term is non-zero on it AND U_n != 0 at some checked "
    "order >= 2. Distinct = distinct case hash."
)
ASSUMPTIONS = [
    "H_0 diagonal in the supplied basis (precondition of the default Sylvester solver)",
    "float tolerance 1e-9 * max(1, sum of |U_inv||H||U| over the splittings); true rounding is <= 1e-12 of that",
]
REQUIRED_CLASSES = {
    "all": ["blocks=1", "blocks=3", "blocks=4", "params=2", "params=3", "repr=sparse", "repr=sympy",
            "selection=mask", "selection=full", "has-size-1-block", "degenerate-level-in-block", "higher-order-input-terms"]
}


FORMS = ("indices", "indices", "indices", "blocks", "blocks", "eigvecs", "symmatrix")


def strategy(tier):
    if tier == "thorough":
        return problems(tier, hermitian=True, max_N=10, max_block_size=4, forms=FORMS)
    from hypothesis import strategies as st

    # one case in eight is a small exact (sympy) two-block problem with a fully or selectively diagonalised block -
    # equal block sizes, zero blocks and symbolic masks meet there far more often than in the general stream
    small = problems(tier, hermitian=True, min_blocks=2, max_blocks=2, max_N=4, reprs=("sympy",), selections=("full", "mask"), forms=FORMS)
    general = problems(tier, hermitian=True, forms=FORMS)
    return st.one_of(*([general] * 7 + [small]))


def check_case(case, enforce_all=False):
    out = Outcome()
    out.labels = bd_checks.labels_for(case)
    ctx = bd_checks.Ctx(case, out)
    if not ctx.ok:
        return out
    res = bd_checks.check_similarity(ctx)
    if res is not None:
        out.nontrivial = res["nontrivial"]
    out.info["N"] = ctx.N
    out.info["K"] = ctx.K
    return out
