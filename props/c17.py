"""C17 - ComplementProjector equals the dense matrix 1 - R L^dagger under every operator operation."""
from __future__ import annotations

import numpy as np
from hypothesis import strategies as st

from vlib.runner import Outcome

ID = "C17"
LEVEL = "exploration"
LEVEL_TEXT = (
    "Generated search: for drawn right/left vector sets (orthonormal L = R, biorthogonal L != R, and unconstrained "
    "L) several drawn *sequences* of .T / .H / .conjugate() / .adjoint() are applied to one and the same projector "
    "object (so the cached-operator links are populated in many orders), followed by a drawn application: left and "
    "right products with vectors and matrices of every shape, matvec / rmatvec / matmat / rmatmat, compositions "
    "P@A, A@P, P@A@P with dense and sparse operators and their .H / .T / right products. Every result is compared "
    "with the same expression on the dense matrix 1 - R L^dagger; idempotence, shape and dtype are checked. No proof."
)
LEVEL_NOTE = (
    "Trusted: numpy dense linear algebra, scipy's LinearOperator composition machinery. Tolerance 1e-10 x magnitude "
    "(inputs are small integers or QR factors of them). Bounds: n <= 8, k <= 4, <= 4 sequences of <= 5 unary operations."
)
TECHNIQUE = "property-based testing (Hypothesis), operation sequences on a shared object vs dense-matrix reference + coverage-guided fuzzing stage (atheris/libFuzzer driving the same strategy and oracle)"
BUDGET = {"quick": 4000, "thorough": 100000}
FUZZ = {"quick": 3200, "thorough": 32000}  # executions of the coverage-guided stage (vlib/fuzz.py)
RULE = (
    "case = (n, k, vector class in {orthonormal, biorthogonal, general, near_hermitian}, real / complex / mixed-dtype data, list of 1-4 "
    "(unary-operation sequence, application) pairs all applied to the same projector object). Non-trivial = complex "
    "data or L != R, AND some sequence has length >= 2 or the application is a composite/right action."
)
ASSUMPTIONS = ["operands are dense numpy arrays, scipy sparse arrays, or scipy sparse matrices wrapped by aslinearoperator"]
REQUIRED_CLASSES = {"all": ["class=orthonormal", "class=biorthogonal", "class=general", "class=near_hermitian", "complex", "app=compose", "app=rmatvec", "app=right", "seqlen>=3", "mixed-dtype-vectors", "app=self-compose", "app=sparse-operand"]}

UNARY = ["T", "H", "conj", "adjoint", "transpose"]
APPS = ["left_vec", "left_col", "left_mat", "right_vec", "right_mat", "matvec", "rmatvec", "matmat", "rmatmat",
        "PA", "AP", "PAP", "PAP_H", "PAP_T", "x_PAP", "PAP_rmatvec", "PAP_rmatmat", "PP", "AP_H_left",
        # the projector composed with itself (and with its own adjoint) AS OPERATORS: 1 - R L^dagger is idempotent only
        # when L^dagger R = 1, so for general L these composites differ from the projector
        "PP_op", "PP_op_H", "x_PP_op", "PHP_op", "P_times_P",
        # scipy-sparse operands handed to the projector directly (as the implicit mode does with sparse perturbations)
        "left_spmat", "right_spmat", "PAP_spmat", "rmatmat_spmat"]


@st.composite
def _case(draw, tier):
    n = draw(st.integers(2, 8))
    k = draw(st.integers(1, min(4, n - 1)))
    cls = draw(st.sampled_from(["orthonormal", "biorthogonal", "biorthogonal", "general", "near_hermitian"]))
    cplx = draw(st.booleans())
    ent = st.integers(-3, 3)

    def mat(r, c):
        return [[[draw(ent), draw(ent) if cplx else 0] for _ in range(c)] for _ in range(r)]

    steps = []
    for _ in range(draw(st.integers(1, 4))):
        seq = draw(st.lists(st.sampled_from(UNARY), min_size=0, max_size=5))
        app = draw(st.sampled_from(APPS))
        steps.append([seq, app, draw(st.integers(1, 3))])
    return {
        "n": n, "k": k, "class": cls, "complex": cplx,
        "B": mat(n - k, k), "M": mat(n, k), "perm": list(draw(st.permutations(range(n)))),
        "A": mat(n, n), "A_sparse": draw(st.booleans()), "X": mat(n, 3), "Y": mat(3, n),
        "steps": steps,
        # mixed dtypes: one of the two vector sets real, the other complex (only meaningful for complex L != R cases)
        "mixed": draw(st.sampled_from([None, None, "real_R", "real_L"])),
    }


def strategy(tier):
    return _case(tier)


def _arr(M, cplx):
    a = np.array([[complex(e[0], e[1]) for e in row] for row in M])
    return a if cplx else a.real.copy()


def build_vectors(case):
    mixed = case.get("mixed") if case["complex"] and case["class"] not in ("orthonormal", "near_hermitian") else None
    if mixed:
        # real right vectors with complex left vectors (L^dagger R = 1 still holds in the biorthogonal class), or the two
        # sets exchanged
        c2 = dict(case, mixed=None, B=[[[e[0], 0] for e in row] for row in case["B"]])
        R, L = build_vectors(c2)
        R = R.real.copy()
        return (R, L) if mixed == "real_R" else (L, R)
    n, k, cplx = case["n"], case["k"], case["complex"]
    B = _arr(case["B"], cplx)
    base = np.vstack([np.eye(k), B])[case["perm"]]  # full column rank, R^dagger R = 1 + B^dagger B
    if case["class"] == "orthonormal":
        Q, _ = np.linalg.qr(base)
        return Q, None
    if case["class"] == "near_hermitian":
        # biorthogonal pair whose members differ by one part in a million (left / right eigenvectors of a weakly
        # non-Hermitian problem): L^dagger R = 1 exactly, L != R, but numpy.allclose(L, R) with its default tolerances
        Q, _ = np.linalg.qr(base)
        s_ = 1 + 2.0**-20
        return Q * s_, Q / s_
    R = base
    Ginv = np.linalg.inv(R.conj().T @ R)
    L0 = R @ Ginv  # L0^dagger R = 1
    M = _arr(case["M"], cplx)
    if case["class"] == "biorthogonal":
        Z = M - R @ (Ginv @ (R.conj().T @ M))  # Z^dagger R = 0  (columns orthogonal to span R)
        L = L0 + Z
        return R, L
    return R, M  # general: unconstrained left vectors


def _dense(v):
    return v.toarray() if hasattr(v, "toarray") else np.asarray(v)


def check_case(case, enforce_all=False):
    from scipy import sparse
    from scipy.sparse.linalg import LinearOperator

    from pymablock.linalg import ComplementProjector, aslinearoperator

    out = Outcome()
    n, cplx = case["n"], case["complex"]
    out.labels += [f"class={case['class']}", "complex" if cplx else "real"]
    R, L = build_vectors(case)
    if L is not None and np.iscomplexobj(R) != np.iscomplexobj(L):
        out.labels.append("mixed-dtype-vectors")
    D0 = np.eye(n) - R @ (R if L is None else L).conj().T
    try:
        P0 = ComplementProjector(R) if L is None else ComplementProjector(R, L)
    except Exception as exc:  # noqa: BLE001
        out.fail("exception", f"constructor raised {type(exc).__name__}: {exc}")
        return out
    if tuple(P0.shape) != (n, n):
        out.fail("shape", f"shape {P0.shape}")
    want_dtype = np.result_type(R.dtype, (R if L is None else L).dtype)
    if L is not None and np.array_equal(L, R):
        # left vectors that are numerically the right vectors (possibly stored with another dtype): the projector IS the
        # Hermitian one built from R alone, and its dtype is that of R
        want_dtype = R.dtype
    if P0.dtype != want_dtype:
        out.fail("dtype", f"dtype {P0.dtype}, expected {want_dtype}")
    A = _arr(case["A"], cplx)
    Aop = aslinearoperator(sparse.csr_array(A) if case["A_sparse"] else A)
    X, Y = _arr(case["X"], cplx), _arr(case["Y"], cplx)
    eye = np.eye(n)
    rich = False

    def dense_of(op):
        return op @ eye if isinstance(op, LinearOperator) else np.asarray(op)

    for seq, app, m in case["steps"]:
        P, D = P0, D0
        try:
            for u in seq:
                if u in ("T", "transpose"):
                    P, D = (P.T if u == "T" else P.transpose()), D.T
                elif u in ("H", "adjoint"):
                    P, D = (P.H if u == "H" else P.adjoint()), D.conj().T
                else:
                    P, D = P.conjugate(), D.conj()
            x, xm, y, ym = X[:, 0], X[:, :m], Y[0], Y[:m]
            if app == "left_vec":
                got, exp = P @ x, D @ x
            elif app == "left_col":
                got, exp = P @ X[:, :1], D @ X[:, :1]
            elif app == "left_mat":
                got, exp = P @ xm, D @ xm
            elif app == "left_spmat":
                got, exp = _dense(P @ sparse.csr_array(xm)), D @ xm
            elif app == "right_spmat":
                got, exp = _dense(sparse.csr_array(ym) @ P), ym @ D
            elif app == "PAP_spmat":
                got, exp = _dense((P @ Aop @ P) @ sparse.csr_array(xm)), D @ A @ D @ xm
            elif app == "rmatmat_spmat":
                got, exp = _dense(P.rmatmat(sparse.csr_array(xm))), D.conj().T @ xm
            elif app == "right_vec":
                got, exp = y @ P, y @ D
            elif app == "right_mat":
                got, exp = ym @ P, ym @ D
            elif app == "matvec":
                got, exp = P.matvec(x), D @ x
            elif app == "rmatvec":
                got, exp = P.rmatvec(x), D.conj().T @ x
            elif app == "matmat":
                got, exp = P.matmat(xm), D @ xm
            elif app == "rmatmat":
                got, exp = P.rmatmat(xm), D.conj().T @ xm
            elif app == "PA":
                got, exp = dense_of(P @ Aop), D @ A
            elif app == "AP":
                got, exp = dense_of(Aop @ P), A @ D
            elif app == "PAP":
                got, exp = dense_of(P @ Aop @ P), D @ A @ D
            elif app == "PAP_H":
                got, exp = dense_of((P @ Aop @ P).H), (D @ A @ D).conj().T
            elif app == "PAP_T":
                got, exp = dense_of((P @ Aop @ P).T), (D @ A @ D).T
            elif app == "x_PAP":
                got, exp = ym @ (P @ Aop @ P), ym @ (D @ A @ D)
            elif app == "PAP_rmatvec":
                got, exp = (P @ Aop @ P).rmatvec(x), (D @ A @ D).conj().T @ x
            elif app == "PAP_rmatmat":
                got, exp = (P @ Aop @ P).rmatmat(xm), (D @ A @ D).conj().T @ xm
            elif app == "PP":
                got, exp = P @ (P @ xm), D @ (D @ xm)
            elif app == "AP_H_left":
                got, exp = (Aop @ P).H @ xm, (A @ D).conj().T @ xm
            elif app == "PP_op":
                got, exp = (P @ P) @ xm, D @ D @ xm
            elif app == "PP_op_H":
                got, exp = (P @ P).H @ xm, (D @ D).conj().T @ xm
            elif app == "x_PP_op":
                got, exp = ym @ (P @ P), ym @ D @ D
            elif app == "PHP_op":
                got, exp = (P.H @ P) @ xm, D.conj().T @ D @ xm
            elif app == "P_times_P":
                got, exp = (P * P) @ xm, D @ D @ xm
            else:
                raise AssertionError(app)
        except Exception as exc:  # noqa: BLE001
            out.fail("exception", f"sequence {seq} then {app} raised {type(exc).__name__}: {str(exc)[:200]}")
            return out
        got = np.asarray(got)
        if got.shape != np.asarray(exp).shape:
            out.fail("result-shape", f"sequence {seq} then {app}: shape {got.shape}, dense gives {np.asarray(exp).shape}")
            return out
        scale = max(1.0, float(np.abs(exp).max()) if np.size(exp) else 1.0, float(np.abs(D).max()) * float(np.abs(A).max() + 1) ** 1)
        dev = float(np.abs(got - exp).max()) if got.size else 0.0
        if not np.isfinite(dev) or dev > 1e-10 * scale * max(1.0, float(np.abs(D).max())) ** 2:
            out.fail("value", f"sequence {seq} then {app}: deviates from the dense matrix by {dev:.3g} (scale {scale:.3g})")
            return out
        if tuple(P.shape) != (n, n) or P.dtype != want_dtype:
            out.fail("shape", f"after {seq}: shape {P.shape} dtype {P.dtype}")
            return out
        group = {"PA": "compose", "AP": "compose", "PAP": "compose", "PAP_H": "compose", "PAP_T": "compose", "x_PAP": "compose",
                 "PAP_rmatvec": "compose", "PAP_rmatmat": "compose", "AP_H_left": "compose", "PP_op": "self-compose", "PP_op_H": "self-compose", "x_PP_op": "self-compose", "PHP_op": "self-compose",
                 "P_times_P": "self-compose", "left_spmat": "sparse-operand", "right_spmat": "sparse-operand", "PAP_spmat": "sparse-operand",
                 "rmatmat_spmat": "sparse-operand", "rmatvec": "rmatvec", "rmatmat": "rmatvec",
                 "right_vec": "right", "right_mat": "right"}.get(app, "left")
        out.labels.append("app=" + group)
        if len(seq) >= 3:
            out.labels.append("seqlen>=3")
        if len(seq) >= 2 or group != "left":
            rich = True
    # idempotence when L^dagger R = 1
    if case["class"] != "general":
        try:
            a, b = P0 @ (P0 @ X), P0 @ X
        except Exception as exc:  # noqa: BLE001
            out.fail("exception", f"idempotence raised {type(exc).__name__}: {exc}")
            return out
        if float(np.abs(a - b).max()) > 1e-9 * max(1.0, float(np.abs(D0).max()) ** 2 * float(np.abs(X).max())):
            out.fail("idempotence", f"P(Px) differs from Px by {np.abs(a - b).max():.3g}")
    out.nontrivial = bool((cplx or L is not None) and rich)
    out.info["n"] = n
    return out
