"""C06 - implicit (incomplete eigenvectors) mode equals the explicit computation."""
from __future__ import annotations

import warnings

import numpy as np
from hypothesis import strategies as st

from vlib.cauchy import orders_upto
from vlib.runner import Outcome

ID = "C06"
LEVEL = "exploration"
LEVEL_TEXT = (
    "Differential generated search: a numeric Hamiltonian H_0 = R diag(E) R^-1 (Hermitian real / complex, or "
    "diagonalisable non-Hermitian with a biorthogonal basis; dense or sparse; degenerate explicit levels; 1-2 explicit "
    "blocks of 1-3 vectors; 1-2 perturbation parameters; full diagonalisation or masks on explicit blocks) is block "
    "diagonalised twice - with only the explicit eigenvector blocks (implicit mode, direct solver with default and "
    "explicit eigenvalue_atol, or the KPM solver with and without auxiliary vectors) and with the complete "
    "eigenbasis. All explicit blocks of H_tilde, U, U_inv must agree; blocks involving the implicit subspace must act "
    "as the explicit blocks embedded in the complement (X V_B^dagger, V_B X, V_B X V_B^dagger; R_B / L_B for "
    "biorthogonal bases). KPM: within 1e3 x requested accuracy x magnitude, or a convergence RuntimeWarning. No proof."
)
LEVEL_NOTE = (
    "Trusted: numpy dense algebra for the embeddings, the complete-basis run of the library as reference (its own "
    "correctness is C01-C05). Tolerance max(1e-8 x magnitude, 1e-13 x largest element so far x |H_0|) x cond(R) for the direct solver. Bounds: n <= 10, orders <= 3."
)
TECHNIQUE = "differential property-based testing (Hypothesis): implicit vs complete-eigenbasis runs of block_diagonalize"
BUDGET = {"quick": 480, "thorough": 12000}
SHRINK_SECONDS = {"quick": 40, "thorough": 200}
RULE = (
    "case = (H_0 spectrum with degeneracies, explicit block sizes, Hermitian / biorthogonal, real / complex, dense / sparse, "
    "perturbations, selection on explicit blocks, solver in {direct, direct+eigenvalue_atol, KPM, KPM+auxiliary}, tight / reversed explicit levels, real-dtype H_0 with complex-conjugate eigenvalue pairs, perturbation strengths 1 and 2^-10). "
    "Non-trivial = (complex data or a degenerate explicit level or two explicit blocks or a biorthogonal basis) and values "
    "of total order >= 2 were compared."
)
ASSUMPTIONS = [
    "explicit vectors are exact eigenvectors up to rounding; implicit energies are >= 1 away from explicit ones",
    "in non-Hermitian mode implicit and complete-basis runs follow the same recurrences, so they are compared even inside the class of known finding K1",
]
REQUIRED_CLASSES = {"all": ["solver=direct", "solver=kpm", "biorthogonal", "complex", "degenerate-explicit", "explicit-blocks=2", "selection", "sparse-h0", "params=2", "kpm-default-options", "real-h0-complex-pairs"]}


@st.composite
def _case(draw, tier):
    from props.c16 import _h0_case

    solver = draw(st.sampled_from(["direct", "direct", "direct", "direct_atol", "kpm", "kpm_aux"]))
    base = draw(_h0_case("kpm" if solver.startswith("kpm") else "direct"))
    n = base["n"]
    k = draw(st.integers(1, 2))
    cplx = base["complex"]

    def herm():
        A = [[[draw(st.integers(-3, 3)), draw(st.integers(-3, 3)) if cplx else 0] for _ in range(n)] for _ in range(n)]
        return A

    base.update({
        "solver": solver, "n_params": k, "pert": [herm() for _ in range(k)], "K": draw(st.sampled_from([2, 2, 3])) if k == 1 else 2,
        "sparse_pert": draw(st.booleans()),
        "selection": draw(st.sampled_from(["none", "none", "full", "mask"])),
        "mask_salt": draw(st.integers(0, 1000)),
        # perturbations of very different strength (factor 2^-10): iterative solves then need different numbers of steps
        "pert_scale": [draw(st.sampled_from([0, 0, -10])) for _ in range(k)],
    })
    return base


def strategy(tier):
    return _case(tier)


def _cm(M):
    return np.array([[complex(e[0], e[1]) for e in row] for row in M])


def build_inputs(case, out=None):
    """Construct H (dict of orders), the implicit and complete eigenvector lists, kwargs and solver options of a case."""
    from scipy import sparse

    from props.c16 import _blocks, build_h0

    labels = []
    kpm = case["solver"].startswith("kpm")
    c = dict(case, nh=case["nh"] and not kpm)
    H0, R, L, E = build_h0(c)
    n, k, K = c["n"], c["n_params"], c["K"]
    nh = c["nh"]
    sizes = c["sizes"]
    nexp = sum(sizes)
    blocks = _blocks(c, R, L)
    labels += ["solver=" + ("kpm" if kpm else "direct"), f"params={k}", f"explicit-blocks={len(sizes)}"]
    if nh:
        labels.append("biorthogonal")
        if np.isrealobj(H0):
            labels.append("real-h0-complex-pairs")
    if c["complex"]:
        labels.append("complex")
    pert = []
    for M in c["pert"]:
        A = _cm(M)
        if not nh:
            A = (A + A.conj().T) / 2
        if not c["complex"]:
            A = A.real.copy()
        pert.append(A * 2.0 ** c.get("pert_scale", [0] * k)[len(pert)])
    if not c["complex"]:
        H0 = np.real_if_close(H0)
    wrap = (lambda A: sparse.csr_array(A))
    ham = {(0,) * k: wrap(H0) if c["sparse_h0"] else H0}
    if c["sparse_h0"]:
        labels.append("sparse-h0")
    for q, A in enumerate(pert):
        ham[tuple(int(j == q) for j in range(k))] = wrap(A) if c["sparse_pert"] else A
    Eexp = [E[sum(sizes[:b]) : sum(sizes[: b + 1])] for b in range(len(sizes))]
    degenerate = any(len(set(np.round(e, 9))) < len(e) for e in Eexp)
    if degenerate:
        labels.append("degenerate-explicit")
    kwargs = {"hermitian": not nh}
    if c["selection"] == "full":
        kwargs["fully_diagonalize"] = (0,)
        labels.append("selection")
    elif c["selection"] == "mask":
        s0 = sizes[0]
        mask = np.zeros((s0, s0), dtype=bool)
        for x in range(s0):
            for y in range(x + 1, s0):
                if abs(Eexp[0][x] - Eexp[0][y]) > 1e-6 and (c["mask_salt"] + 3 * x + 5 * y) % 2:
                    mask[x, y] = mask[y, x] = True
        kwargs["fully_diagonalize"] = {0: mask}
        labels.append("selection")
    Rb = [b[0] for b in blocks]
    Lb = [b[1] for b in blocks]
    R_rest, L_rest = R[:, nexp:], L[:, nexp:]
    if nh:
        vec_impl = [(r.copy(), l.copy()) for r, l in blocks]
        vec_full = vec_impl + [(R_rest.copy(), L_rest.copy())]
    else:
        vec_impl = [r.copy() for r in Rb]
        vec_full = vec_impl + [R_rest.copy()]
    opts = {}
    if c["solver"] == "direct_atol":
        opts = {"solver_options": {"eigenvalue_atol": 1e-9}}
    elif kpm:
        so = {"atol": c["kpm_atol"]} if c["kpm_atol"] is not None else {}
        so["max_moments"] = 40000  # bound the expansion (library default 1e6): see props/c16.py
        if c["kpm_atol"] is None:
            labels.append("kpm-default-options")
        n_aux = min(c["n_aux"], n - nexp - 2) if c["solver"] == "kpm_aux" else 0
        if n_aux > 0:
            so["auxiliary_vectors"] = R_rest[:, :n_aux].copy()
            labels.append("aux-vectors")
        opts = {"solver_options": so, "direct_solver": False}
    return {"c": c, "ham": ham, "kwargs": kwargs, "opts": opts, "vec_impl": vec_impl, "vec_full": vec_full, "R": R, "L": L, "E": E,
            "Rb": Rb, "Lb": Lb, "R_rest": R_rest, "L_rest": L_rest, "labels": labels, "kpm": kpm, "degenerate": degenerate}


def check_case(case, enforce_all=False):
    from scipy import sparse
    from scipy.sparse.linalg import LinearOperator

    from pymablock import block_diagonalize
    from pymablock.series import one, zero

    out = Outcome()
    B_ = build_inputs(case)
    c, ham, kwargs, opts = B_["c"], B_["ham"], B_["kwargs"], B_["opts"]
    vec_impl, vec_full, R, L = B_["vec_impl"], B_["vec_full"], B_["R"], B_["L"]
    Rb, Lb, R_rest, L_rest = B_["Rb"], B_["Lb"], B_["R_rest"], B_["L_rest"]
    kpm, degenerate = B_["kpm"], B_["degenerate"]
    out.labels += B_["labels"]
    n, k, K = c["n"], c["n_params"], c["K"]
    nh = c["nh"]
    sizes = c["sizes"]
    nexp = sum(sizes)
    with warnings.catch_warnings(record=True) as wlist:
        warnings.simplefilter("always")
        try:
            impl = dict(zip(("H_tilde", "U", "U_inv"), block_diagonalize(dict(ham), subspace_eigenvectors=vec_impl, **kwargs, **opts)))
        except Exception as exc:  # noqa: BLE001
            out.fail("exception", f"implicit block_diagonalize raised {type(exc).__name__}: {str(exc)[:200]}")
            return out
        try:
            full = dict(zip(("H_tilde", "U", "U_inv"), block_diagonalize(dict(ham), subspace_eigenvectors=vec_full, **kwargs)))
        except Exception as exc:  # noqa: BLE001
            out.fail("exception", f"complete-basis block_diagonalize raised {type(exc).__name__}: {str(exc)[:200]}")
            return out
        nb = len(sizes) + 1
        B = nb - 1
        cond = max(1.0, float(np.linalg.norm(R, 2) * np.linalg.norm(np.linalg.inv(R), 2)))
        eye = np.eye(n)
        seen2 = False

        def dense(v, shape):
            if v is zero:
                return np.zeros(shape, dtype=complex)
            if v is one:
                return None
            if isinstance(v, LinearOperator):
                return np.asarray(v @ eye, dtype=complex)
            if sparse.issparse(v):
                return v.toarray().astype(complex)
            return np.asarray(v, dtype=complex)

        gmax = [1.0]
        emax = max(1.0, float(np.abs(np.asarray(B_["E"], dtype=complex)).max()))

        def biggest(order):
            """largest element of the complete-basis results at this order (all series, all blocks)"""
            m = 0.0
            for name_ in ("H_tilde", "U", "U_inv"):
                for i_ in range(nb):
                    for j_ in range(nb):
                        try:
                            v = full[name_][(i_, j_) + order]
                        except Exception:  # noqa: BLE001  (reported by the main loop)
                            continue
                        if v is zero or v is one:
                            continue
                        v = v.toarray() if sparse.issparse(v) else np.asarray(v)
                        m = max(m, float(np.abs(v).max()) if v.size else 0.0)
            return m

        for order in orders_upto(k, K):
            for name in ("H_tilde", "U", "U_inv"):
                for i in range(nb):
                    for j in range(nb):
                        try:
                            a = impl[name][(i, j) + order]
                            b = full[name][(i, j) + order]
                        except Exception as exc:  # noqa: BLE001
                            out.fail("exception", f"{name}[{i},{j},{list(order)}] raised {type(exc).__name__}: {str(exc)[:200]}")
                            return out
                        si = n - nexp if i == B else sizes[i]
                        sj = n - nexp if j == B else sizes[j]
                        bd = dense(b, (si, sj))
                        if bd is None:  # identity
                            bd = np.eye(si, dtype=complex)
                        # embed the explicit result
                        left = (R_rest if i == B else None)
                        right = (L_rest.conj().T if j == B else None)
                        emb = bd
                        if left is not None:
                            emb = left @ emb
                        if right is not None:
                            emb = emb @ right
                        ad = dense(a, emb.shape)
                        if ad is None:
                            if i == j == B:
                                ad = eye - np.hstack(Rb) @ np.hstack(Lb).conj().T  # identity on the complement
                            else:
                                ad = np.eye(emb.shape[0], dtype=complex)
                        if ad.shape != emb.shape:
                            out.fail("shape", f"{name}[{i},{j},{list(order)}]: implicit shape {ad.shape}, embedded explicit shape {emb.shape}")
                            return out
                        scale = max(1.0, float(np.abs(emb).max()))
                        # rounding floor: an element that is small itself is still the result of cancellations between
                        # intermediates as large as the largest element computed so far times |H_0| (near-degenerate
                        # explicit levels give U_n ~ gap^-n), so the absolute error cannot be below ~ eps x that
                        gmax[0] = max(gmax[0], float(np.abs(emb).max()) if emb.size else 0.0, biggest(order))
                        floor = 1e-13 * gmax[0] * emax * cond
                        dev = float(np.abs(ad - emb).max()) if emb.size else 0.0
                        warned = any(issubclass(w.category, RuntimeWarning) and "KPM" in str(w.message) for w in wlist)
                        if kpm:
                            tol = 1e3 * (c["kpm_atol"] or 1e-5) * scale * (1 + sum(order)) ** 2
                            if warned:
                                out.labels.append("kpm-convergence-warning")
                                continue
                        else:
                            tol = max(1e-8 * scale * cond, floor)
                        if not np.isfinite(dev) or dev > tol:
                            out.fail(
                                "implicit-differs" if not kpm else "kpm-differs",
                                f"{name}[{i},{j},{list(order)}] ({'implicit block' if B in (i, j) else 'explicit block'}, solver {c['solver']}, nh={nh}): deviation {dev:.3g} > {tol:.3g}",
                            )
                            return out
                        if sum(order) >= 2 and float(np.abs(emb).max() if emb.size else 0) > 0:
                            seen2 = True
    rich = c["complex"] or degenerate or len(sizes) == 2 or nh
    out.nontrivial = bool(rich and seen2)
    return out
