"""C19 - BlockSeries indexing follows numpy semantics with exactly-once evaluation.

Model-based, history-valued cases: a case is a series description (shape, number of
infinite dimensions, a pure value function with a sparse set of ``zero`` elements, chain
elements that read a lower order of the same series, and self-referential "loop"
elements) plus a drawn sequence of operations (indexing expressions, finite-index views
and indexing of the views, ``pop``, and malformed requests).  The model is the dense
numpy object array of the value function over the bounding box of the request, indexed
with the very same expression.
"""
from __future__ import annotations

import itertools

import numpy as np
from hypothesis import strategies as st

from vlib.runner import Outcome

ID = "C19"
LEVEL = "exploration"
LEVEL_TEXT = (
    "Model-based generated search over request histories: every generated index expression is compared, element by "
    "element and mask by mask, with numpy indexing of the dense value array; eval logs decide exactly-once and "
    "no-stray-evaluation; malformed requests must raise IndexError, self-referential ones RuntimeError. Holds on "
    "everything generated; no proof of absence."
)
LEVEL_NOTE = (
    "Trusted: numpy's own indexing as the model, the pure value function, Hypothesis generation. Bounds: <= 3 finite "
    "and <= 3 infinite dimensions, orders <= 4, <= 20 operations per history."
)
TECHNIQUE = "property-based testing (Hypothesis), model-based operation sequences vs numpy reference model + coverage-guided fuzzing stage (atheris/libFuzzer driving the same strategy and oracle)"
BUDGET = {"quick": 6000, "thorough": 150000}
FUZZ = {"quick": 3200, "thorough": 32000}  # executions of the coverage-guided stage (vlib/fuzz.py)
RULE = (
    "case = (shape, n_infinite, value function with zero/chain/loop elements, sequence of <=12 operations: "
    "get(index expression of ints incl. negative finite ones, np.integer, equal-length lists, forward slices), "
    "view(finite-only index) + get on the view, pop, interrupted requests (the k-th evaluation raises KeyboardInterrupt / SystemExit / ValueError, then the request is repeated), malformed requests (infinite slice, negative order as int/"
    "list entry/slice bound, wrong arity), requests reaching a self-referential element). Oracle: dense numpy "
    "object array of the value function indexed by the same expression (values, masks, scalar-vs-array kind), "
    "eval log subset of the dependency closure of the request, every index evaluated at most once while cached. "
    "Non-trivial = the history contains an array-valued get with a masked element or list/slice mixture AND "
    "(a repeat of an earlier request, a pop followed by a re-request, a view get, or an error request)."
)
ASSUMPTIONS = [
    "index expressions are restricted to what numpy itself accepts (equal-length lists, step >= 1)",
    "np.integer indices are used for full-index requests only (views are documented for int/slice/list)",
    "the value function is pure, so re-evaluation after pop must give the same value",
]
REQUIRED_CLASSES = {"all": ["op:get", "op:view_get", "op:pop", "op:error", "op:loop", "n_inf=0", "n_inf=3", "masked_result"]}

SHAPES = [(), (1,), (2,), (3,), (2, 2), (3, 2), (1, 3), (2, 2, 2), (2, 3, 2)]


# ----------------------------------------------------------------------- strategies
def _finite_item(d, lists_len):
    if d == 0:
        return st.just(["slice", None, None, None])
    ints = st.integers(-d, d - 1)
    opts = [
        ints,
        ints,
        st.builds(lambda a, b, s: ["slice", a, b, s], st.none() | st.integers(-d - 1, d + 1), st.none() | st.integers(-d - 1, d + 1), st.none() | st.integers(1, 2)),
        st.lists(ints, min_size=lists_len, max_size=lists_len).map(lambda l: ["list", l]),
    ]
    return st.one_of(*opts)


def _order_item(lists_len, maxo):
    o = st.integers(0, maxo)
    return st.one_of(
        o,
        o,
        o.map(lambda v: ["npint", v]),
        st.builds(lambda a, b, s: ["slice", a, b, s], st.none() | o, st.integers(0, maxo + 1), st.none() | st.integers(1, 2)),
        st.lists(o, min_size=lists_len, max_size=lists_len).map(lambda l: ["list", l]),
    )


@st.composite
def _full_index(draw, shape, n_inf, maxo=3):
    ll = draw(st.integers(1, 3))
    fin = [draw(_finite_item(d, ll)) for d in shape]
    inf = [draw(_order_item(ll, maxo)) for _ in range(n_inf)]
    return fin + inf


@st.composite
def _finite_index(draw, shape):
    ll = draw(st.integers(1, 3))
    if len(shape) == 3 and draw(st.booleans()):
        # list index between / before slices: numpy keeps the list axis in place
        items = [["slice", None, None, None] for _ in shape]
        k = draw(st.integers(0, 2))
        items[k] = ["list", draw(st.lists(st.integers(-shape[k], shape[k] - 1), min_size=ll, max_size=ll))]
        return items
    items = [draw(_finite_item(d, ll)) for d in shape]
    # np.integer is not a documented view index: keep python ints
    return items


@st.composite
def _bad_index(draw, shape, n_inf):
    idx = draw(_full_index(shape, n_inf))
    kinds = ["short", "long"]
    if n_inf:
        kinds += ["inf_slice", "neg_int", "neg_list", "neg_start", "neg_stop"]
    kind = draw(st.sampled_from(kinds))
    nf = len(shape)
    if kind == "short":
        # a too short index; with infinite dimensions the finite-only length is a legal view
        lengths = [k for k in range(0, nf + n_inf) if not (n_inf and k == nf)]
        if not lengths:
            kind = "long"
        else:
            idx = idx[: draw(st.sampled_from(lengths))]
    if kind == "long":
        idx = idx + [0]
    if kind in ("inf_slice", "neg_int", "neg_list", "neg_start", "neg_stop"):
        k = nf + draw(st.integers(0, n_inf - 1))
        neg = draw(st.integers(-3, -1))
        if kind == "inf_slice":
            idx[k] = ["slice", draw(st.none() | st.integers(0, 2)), None, None]
        elif kind == "neg_int":
            idx[k] = neg if draw(st.booleans()) else ["npint", neg]
        elif kind == "neg_list":
            # keep list lengths compatible: replace every list by a length-2 list
            for q, it in enumerate(idx):
                if isinstance(it, list) and it[0] == "list":
                    idx[q] = ["list", [it[1][0], it[1][0]]]
            idx[k] = ["list", [draw(st.integers(0, 2)), neg]]
        elif kind == "neg_start":
            idx[k] = ["slice", neg, draw(st.integers(0, 3)), None]
        else:
            idx[k] = ["slice", draw(st.none() | st.integers(0, 1)), neg, None]
    return [kind, idx]


@st.composite
def _case(draw, tier):
    shape = list(draw(st.sampled_from(SHAPES)))
    n_inf = draw(st.integers(0, 3))
    nd = len(shape) + n_inf
    coef = lambda: draw(st.lists(st.integers(0, 6), min_size=nd + 1, max_size=nd + 1))  # noqa: E731
    case = {
        "shape": shape,
        "n_inf": n_inf,
        "zero": [draw(st.integers(2, 5)), coef()],
        "chain": [draw(st.integers(2, 5)), coef()] if n_inf else None,
        "loop": [draw(st.integers(5, 11)), coef()] if (n_inf and draw(st.integers(0, 3)) == 0) else None,
        "fwd": [draw(st.integers(2, 5)), coef()] if (n_inf and draw(st.booleans())) else None,
    }
    n_ops = draw(st.integers(2, 12 if tier == "quick" else 20))
    ops = []
    n_views = 0
    view_shapes = []
    for _ in range(n_ops):
        kinds = ["get", "get", "get", "repeat", "pop", "bad", "interrupt"]
        if n_inf:
            kinds += ["view", "view"]
            if n_views:
                kinds += ["view_get", "view_get", "view_get"]
        kind = draw(st.sampled_from(kinds))
        if kind == "get":
            ops.append(["get", draw(_full_index(shape, n_inf))])
        elif kind == "repeat":
            ops.append(["repeat", draw(st.integers(0, 30))])
        elif kind == "interrupt":
            # a request during which the k-th element evaluation is aborted by an exception raised in eval
            ops.append(["interrupt", draw(_full_index(shape, n_inf)), draw(st.integers(1, 4)), draw(st.sampled_from(["keyboard", "value", "exit"]))])
        elif kind == "pop":
            idx = [draw(st.integers(0, d - 1)) for d in shape] + [draw(st.integers(0, 3)) for _ in range(n_inf)]
            ops.append(["pop", idx])
        elif kind == "bad":
            ops.append(["bad"] + draw(_bad_index(shape, n_inf)))
        elif kind == "view":
            findex = draw(_finite_index(shape))
            ops.append(["view", findex])
            view_shapes.append(list(np.empty(shape)[_to_index(findex)].shape))
            n_views += 1
        else:
            k = draw(st.integers(0, n_views - 1))
            ops.append(["view_get", k, draw(_full_index(view_shapes[k], n_inf))])
    case["ops"] = ops
    return case


def strategy(tier):
    return _case(tier)


# ----------------------------------------------------------------------------- model
def _to_item(it):
    if isinstance(it, list):
        if it[0] == "slice":
            return slice(it[1], it[2], it[3])
        if it[0] == "list":
            return list(it[1])
        if it[0] == "npint":
            return np.int64(it[1])
    return it


def _to_index(idx):
    return tuple(_to_item(it) for it in idx)


class Model:
    """Pure-python value function (no BlockSeries involved)."""

    def __init__(self, case, zero):
        self.shape = tuple(case["shape"])
        self.n_inf = case["n_inf"]
        self.zero = zero
        self.zspec, self.cspec, self.lspec = case["zero"], case["chain"], case["loop"]
        self.fspec = case.get("fwd")
        self.memo = {}

    @staticmethod
    def _hit(spec, idx):
        if spec is None:
            return False
        m, c = spec
        return (sum(a * int(i) for a, i in zip(c, idx)) + c[-1]) % m == 0

    def kind(self, idx):
        if self._hit(self.lspec, idx):
            return "loop"
        if self._hit(self.zspec, idx):
            return "zero"
        if self.n_inf:
            k = len(self.shape)
            # forward element: reads the next order of the same series (bounded at order 3)
            if self.fspec is not None and idx[k] < 3 and self._hit(self.fspec, idx):
                return "fwd"
            # chain element: reads the previous order (never a forward element: no cycles)
            if idx[k] >= 1 and self._hit(self.cspec, idx) and self.kind(self.prev(idx)) != "fwd":
                return "chain"
        return "plain"

    def dep(self, idx):
        """The single element the eval of idx reads from the series (None for leaves)."""
        kd = self.kind(idx)
        if kd == "chain":
            return self.prev(idx)
        if kd == "fwd":
            return self.partner(idx)
        return None

    def prev(self, idx):
        k = len(self.shape)
        return idx[:k] + (idx[k] - 1,) + idx[k + 1 :]

    def partner(self, idx):
        # a loop element refers to the element one order higher, which refers back
        k = len(self.shape)
        return idx[:k] + (idx[k] + 1,) + idx[k + 1 :]

    def back_is_loop(self, idx):
        k = len(self.shape)
        return bool(self.n_inf) and idx[k] >= 1 and self.kind(self.prev(idx)) == "loop"

    def in_loop(self, idx):
        """Does evaluating idx run into the self-referential pair?"""
        cur = idx
        while cur is not None:
            if self.back_is_loop(cur) or self.kind(cur) == "loop":
                return True
            cur = self.dep(cur)
        return False

    def closure(self, idx):
        """Indices whose evaluation is legitimately triggered by requesting idx."""
        res = set()
        cur = idx
        while cur is not None:
            res.add(cur)
            cur = self.dep(cur)
        return res

    def code(self, idx):
        return 1000 + sum(int(i) * 11**k for k, i in enumerate(idx))

    def value(self, idx):
        kd = self.kind(idx)
        if kd == "zero":
            return self.zero
        if kd in ("chain", "fwd"):
            p = self.value(self.dep(idx))
            return self.code(idx) + (0 if p is self.zero else p)
        return self.code(idx)


def _bounding(shape, n_inf, index):
    """Per infinite dimension, the extent needed by the index expression."""
    ext = []
    for it in index[len(shape) :]:
        if isinstance(it, slice):
            ext.append(it.stop)
        else:
            ext.append(int(np.max(it, initial=0)) + 1)
    return tuple(ext)


def _dense(model, ext):
    arr = np.empty(model.shape + ext, dtype=object)
    for idx in itertools.product(*[range(d) for d in arr.shape]):
        arr[idx] = "LOOP" if model.in_loop(idx) else model.value(idx)
    return arr


def _requested(shape, ext, index):
    trial = np.zeros(shape + ext, dtype=bool)
    trial[index] = True
    return [tuple(int(i) for i in idx) for idx in zip(*np.where(trial))] if trial.shape else [()]


class _Injected(ValueError):
    pass


# ------------------------------------------------------------------------ check_case
def check_case(case, enforce_all=False):
    import numpy.ma as ma

    from pymablock.series import BlockSeries, zero

    out = Outcome()
    shape = tuple(case["shape"])
    n_inf = case["n_inf"]
    nf = len(shape)
    model = Model(case, zero)
    cached = set()
    log = []
    state = {"double": None}

    def ev(*index):
        idx = tuple(int(i) for i in index)
        # the self-referential pair: (loop element) -> partner -> back
        if model.back_is_loop(idx):
            return series[model.prev(idx)]
        kd = model.kind(idx)
        if kd == "loop":
            return series[model.partner(idx)]
        if kd == "zero":
            val = zero
        elif kd in ("chain", "fwd"):
            # use the value actually read from the series so that a wrong cached value propagates
            p = series[model.dep(idx)]
            val = model.code(idx) + (0 if p is zero else p)
        else:
            val = model.code(idx)
        if idx in cached and state["double"] is None:
            state["double"] = idx
        f = state.get("fault")
        if f is not None:
            f["count"] += 1
            if f["count"] == f["at"]:
                state["fault"] = None
                f["fired"] = idx
                raise f["exc"]("injected into eval")
        cached.add(idx)
        log.append(idx)
        return val

    series = BlockSeries(eval=ev, shape=shape, n_infinite=n_inf, name="S")
    out.labels.append(f"n_inf={n_inf}")
    out.labels.append(f"shape={list(shape)}")

    in_loop, closure, expected_value = model.in_loop, model.closure, model.value

    def compare(got, dense_sub, what):
        """got: library result; dense_sub: numpy result on the model array."""
        if not isinstance(dense_sub, np.ndarray):
            # scalar request
            if isinstance(got, (np.ndarray, ma.MaskedArray)):
                return out.fail("kind", f"{what}: model gives one element, library an array")
            if dense_sub is zero:
                if got is not zero:
                    out.fail("value", f"{what}: expected zero sentinel, got {got!r}")
            elif got is zero or got != dense_sub:
                out.fail("value", f"{what}: expected {dense_sub!r}, got {got!r}")
            return None
        if not isinstance(got, ma.MaskedArray):
            return out.fail("kind", f"{what}: expected a masked array, got {type(got).__name__}")
        if got.shape != dense_sub.shape:
            return out.fail("shape", f"{what}: expected shape {dense_sub.shape}, got {got.shape}")
        exp_mask = np.array([e is zero for e in dense_sub.reshape(-1)], dtype=bool).reshape(dense_sub.shape)
        got_mask = ma.getmaskarray(got)
        if (exp_mask != got_mask).any():
            return out.fail("mask", f"{what}: mask differs, expected {exp_mask.tolist()}, got {got_mask.tolist()}")
        for e, g in zip(dense_sub[~exp_mask].reshape(-1), got.data[~exp_mask].reshape(-1)):
            if g is zero or g != e:
                return out.fail("value", f"{what}: expected {e!r}, got {g!r}")
        if exp_mask.any():
            out.labels.append("masked_result")
            flags["masked"] = True
        return None

    flags = {"masked": False, "mixed": False, "history": False}
    views = []  # (view series, finite index)
    history = []  # earlier get ops, for "repeat"
    popped = set()

    def do_get(idx_spec, what):
        index = _to_index(idx_spec)
        ext = _bounding(shape, n_inf, index)
        req = _requested(shape, ext, index)
        loop = any(in_loop(r) for r in req)
        allowed = set().union(*[closure(r) for r in req]) if req else set()
        before = len(log)
        try:
            got = series[index[0]] if len(index) == 1 else series[index]
        except RuntimeError as exc:
            if loop:
                out.labels.append("op:loop")
                flags["history"] = True
                return
            return out.fail("exception", f"{what}: unexpected RuntimeError {exc}")
        except Exception as exc:  # noqa: BLE001
            return out.fail("exception", f"{what}: unexpected {type(exc).__name__}: {exc}")
        if loop:
            return out.fail("loop-not-detected", f"{what}: request reaches a self-referential element but returned")
        new = log[before:]
        stray = [i for i in new if i not in allowed]
        if stray:
            out.fail("evaluated-unrequested", f"{what}: evaluated {stray[:3]} outside the request")
        dense = _dense_cached(ext)
        compare(got, dense[index], what)
        if any(isinstance(i, (list, slice)) for i in index):
            kinds = {type(i) for i in index if isinstance(i, (list, slice))}
            if len(kinds) == 2 or len(req) > 1:
                flags["mixed"] = True
        if any(r in popped for r in req):
            flags["history"] = True

    dense_memo = {}

    def _dense_cached(ext):
        if ext not in dense_memo:
            dense_memo[ext] = _dense(model, ext)
        return dense_memo[ext]

    for n, op in enumerate(case["ops"]):
        kind = op[0]
        what = f"op{n}:{kind}"
        if kind == "get":
            out.labels.append("op:get")
            do_get(op[1], what + str(op[1]))
            history.append(op[1])
        elif kind == "repeat":
            if history:
                out.labels.append("op:repeat")
                flags["history"] = True
                do_get(history[op[1] % len(history)], what)
        elif kind == "interrupt":
            index = _to_index(op[1])
            ext = _bounding(shape, n_inf, index)
            req = _requested(shape, ext, index)
            if any(in_loop(r) for r in req):
                continue
            exc_cls = {"keyboard": KeyboardInterrupt, "value": _Injected, "exit": SystemExit}[op[3]]
            fault = {"at": op[2], "count": 0, "exc": exc_cls, "fired": None}
            state["fault"] = fault
            try:
                series[index[0]] if len(index) == 1 else series[index]
                raised = None
            except BaseException as exc:  # noqa: BLE001
                raised = exc
            state["fault"] = None
            if fault["fired"] is None:
                if raised is not None:
                    out.fail("exception", f"{what}{op[1]}: unexpected {type(raised).__name__}: {raised}")
                continue  # fewer evaluations than the injection point: an ordinary request
            out.labels.append("op:interrupt")
            flags["history"] = True
            if raised is None or not isinstance(raised, exc_cls):
                out.fail("interrupt-lost", f"{what}{op[1]}: the {op[3]} exception raised while evaluating {fault['fired']} did not reach the caller ({type(raised).__name__})")
                continue
            # the aborted element is not cached, everything evaluated before it is: the same request must now succeed,
            # evaluate nothing twice and agree with numpy indexing of the element values
            do_get(op[1], what + ":retry" + str(op[1]))
            history.append(op[1])
        elif kind == "pop":
            idx = tuple(op[1])
            out.labels.append("op:pop")
            was = idx in cached
            got = series.pop(idx, "absent")
            if was:
                if got == "absent" and not in_loop(idx):
                    out.fail("pop", f"{what}: cached element {idx} was not stored")
                elif got != "absent":
                    exp = expected_value(idx)
                    if (exp is zero) != (got is zero) or (exp is not zero and got != exp):
                        out.fail("pop", f"{what}: popped {got!r}, expected {exp!r}")
                cached.discard(idx)
                popped.add(idx)
            elif got != "absent":
                out.fail("pop", f"{what}: element {idx} was never evaluated but pop returned {got!r}")
        elif kind == "bad":
            out.labels.append("op:error")
            out.labels.append("error:" + op[1])
            flags["history"] = True
            index = _to_index(op[2])
            before = len(log)
            try:
                res = series[index]
            except IndexError:
                pass
            except Exception as exc:  # noqa: BLE001
                out.fail("error-type", f"{what} {op[1]} {op[2]}: expected IndexError, got {type(exc).__name__}: {exc}")
            else:
                out.fail("error-missing", f"{what} {op[1]} {op[2]}: expected IndexError, returned {type(res).__name__}")
            if len(log) != before:
                out.fail("error-evaluated", f"{what}: a rejected request evaluated elements")
        elif kind == "view":
            index = _to_index(op[1])
            try:
                v = series[index if nf != 1 else index[0]] if nf else series[()]
            except Exception as exc:  # noqa: BLE001
                out.fail("exception", f"{what}{op[1]}: unexpected {type(exc).__name__}: {exc}")
                continue
            if not isinstance(v, BlockSeries):
                out.fail("kind", f"{what}{op[1]}: finite-only index did not give a BlockSeries view")
                continue
            exp_shape = np.empty(shape)[index].shape
            if tuple(v.shape) != tuple(exp_shape) or v.n_infinite != n_inf:
                out.fail("shape", f"{what}{op[1]}: view shape {v.shape}, expected {exp_shape}")
                continue
            views.append((v, index))
        elif kind == "view_get":
            if not views:
                continue
            v, findex = views[op[1] % len(views)]
            out.labels.append("op:view_get")
            flags["history"] = True
            vshape = tuple(v.shape)
            index = _to_index(op[2])
            ext = _bounding(vshape, n_inf, index)
            dense = _dense_cached(ext)
            vdense = dense[findex + (slice(None),) * n_inf]
            # which underlying elements does the request touch?
            under = np.arange(dense.size).reshape(dense.shape)
            vunder = under[findex + (slice(None),) * n_inf]

            def unravel(flat):
                return [tuple(int(i) for i in np.unravel_index(f, dense.shape)) for f in np.asarray(flat).reshape(-1)]

            touched = unravel(vunder[index])
            orders_touched = {t[nf:] for t in touched}
            # the packed view evaluates whole finite slabs at the touched orders
            slab = [t for t in unravel(vunder) if t[nf:] in orders_touched]
            loop = any(in_loop(t) for t in slab)
            allowed = set().union(*[closure(t) for t in slab]) if slab else set()
            before = len(log)
            try:
                got = v[index]
            except RuntimeError as exc:
                if loop:
                    out.labels.append("op:loop")
                    continue
                out.fail("exception", f"{what}: unexpected RuntimeError {exc}")
                continue
            except Exception as exc:  # noqa: BLE001
                out.fail("exception", f"{what} view{_fmt(findex)}[{_fmt(index)}]: unexpected {type(exc).__name__}: {exc}")
                continue
            if any(in_loop(t) for t in touched):
                out.fail("loop-not-detected", f"{what}: view request reaches a self-referential element but returned")
                continue
            stray = [i for i in log[before:] if i not in allowed]
            if stray:
                out.fail("evaluated-unrequested", f"{what}: view evaluated {stray[:3]} outside the requested orders")
            compare(got, vdense[index], f"{what} view{_fmt(findex)}[{_fmt(index)}]")
        if state["double"] is not None:
            out.fail("evaluated-twice", f"{what}: element {state['double']} evaluated again while cached")
            state["double"] = None
        if out.failures:
            break

    out.nontrivial = bool((flags["masked"] or flags["mixed"]) and flags["history"])
    out.info["ops"] = len(case["ops"])
    return out


def _fmt(index):
    return ",".join(str(i) for i in index)
