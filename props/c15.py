"""C15 - covariance under relabelling, basis permutation, degenerate rotation, conjugation, shift, scaling, direct sums."""
from __future__ import annotations

import numpy as np
from hypothesis import strategies as st

from vlib import bd_checks, metamorphic as mm
from vlib.gen_matrix import kept_mask, order_key, problems, states_of
from vlib.runner import Outcome

ID = "C15"
LEVEL = "exploration"
LEVEL_TEXT = (
    "Metamorphic generated search: for a generated problem (Hermitian incl. full / selective diagonalisation, or "
    "non-Hermitian outside the known-finding class) and a drawn transformation - relabelling blocks, permuting basis "
    "states, rotating by an exact unitary inside a degenerate level of H_0, complex conjugation, H_0 -> H_0 + s, "
    "H -> cH with c > 0, direct sum with a second decoupled problem - the library is run on both inputs and the "
    "assembled H_tilde, U, U_inv are compared with the correspondingly transformed originals at every multi-order "
    "(exact in exact mode, 1e-9 x magnitude in floating point). No proof."
)
LEVEL_NOTE = (
    "Trusted: the transformation code in props/c15.py and the oracle's kept-mask rule (used to rewrite masks). "
    "Shifts keep gap/|energy| >= 1e-3, far above the library's relative degeneracy threshold 1e-5. Bounds as C01."
)
TECHNIQUE = "metamorphic property-based testing (Hypothesis): related block_diagonalize runs compared order by order"
BUDGET = {"quick": 700, "thorough": 30000}
SHRINK_SECONDS = {"quick": 40, "thorough": 200}
RULE = (
    "case = (problem, transformation in {relabel, permute_states, rotate_degenerate, conjugate, shift, scale, "
    "direct_sum}, parameters; when the original has almost-equal levels the transformed problem is posed with exactly equal ones). Non-trivial = (>= 3 blocks or a selection) or the transformation moves the first or "
    "last block / creates or removes an exactly-zero H_0 block, and U_n != 0 at some order >= 2."
)
ASSUMPTIONS = [
    "rotations are applied only where the kept set is invariant under them (rows of the kept mask coincide)",
    "shifts s are integers in units of 1/4 with |s| <= 200 units, so that gap/|E| stays >= 1e-3",
]
REQUIRED_CLASSES = {
    "all": ["transform=relabel", "transform=permute_states", "transform=rotate_degenerate", "transform=conjugate",
            "transform=shift", "transform=scale", "transform=direct_sum", "mode=nonhermitian", "shift-creates-zero-block"]
}


def strategy(tier):
    herm = problems(tier, hermitian=True)
    nh = problems(tier, hermitian=False, complex_energy=True, safe_bias=True)
    small = problems(tier, hermitian=True, max_blocks=2, max_N=4, max_params=2, selections=("none", "full", "mask"))
    # Hermitian problems with a selective-diagonalisation mask dictionary on some of >= 2 blocks
    masked = problems(tier, hermitian=True, min_blocks=2, max_blocks=3, selections=("mask",))

    @st.composite
    def cases(draw):
        p = draw(st.one_of(herm, herm, nh, masked, masked))
        t = draw(st.sampled_from(["relabel", "permute_states", "rotate_degenerate", "conjugate", "shift", "shift", "scale", "direct_sum"]))
        if p["selection"]["kind"] == "mask" and len(p["blocks"]) >= 2 and draw(st.booleans()):
            t = "relabel"  # a mask dictionary must follow its blocks: {0: m} <-> {1: m}
        par = {}
        nb, N = len(p["blocks"]), len(p["assign"])
        if t == "relabel":
            par["perm"] = list(draw(st.permutations(range(nb))))
        elif t == "permute_states":
            par["perm"] = list(draw(st.permutations(range(N))))
        elif t == "rotate_degenerate":
            par["pick"] = draw(st.integers(0, 1000))
            par["kind"] = draw(st.sampled_from(["real", "complex"]))
        elif t == "shift":
            if draw(st.booleans()):
                # make some level exactly zero (an all-zero block appears / disappears)
                par["s"] = -p["energy"][draw(st.integers(0, N - 1))]
            else:
                par["s"] = draw(st.integers(-200, 200))
        elif t == "scale":
            par["c"] = draw(st.sampled_from([2, 3, 5]))
        elif t == "direct_sum":
            q = draw(small)
            par["other"] = q
            par["interleave"] = draw(st.booleans())
        # the transformed problem is swept in a drawn order of the three series (the original in the default order)
        par["req_order"] = list(draw(st.permutations(range(3))))
        return {"problem": p, "transform": t, "par": par}

    return cases()


def _rebuild_masks(problem, S_full):
    """Block-local elimination masks of a mask-selection from a full kept mask."""
    masks = {}
    for b, states in enumerate(states_of(problem)):
        if str(b) in problem["selection"]["masks"] or True:
            masks[str(b)] = [[int(not S_full[i, j]) for j in states] for i in states]
    return masks


def _perm_matrix_terms(terms, perm):
    """terms'[a][b] = terms[perm[a]][perm[b]] (new state a is old state perm[a])."""
    return {k: [[M[perm[a]][perm[b]] for b in range(len(perm))] for a in range(len(perm))] for k, M in terms.items()}


def transform(case):
    """-> (transformed problem, fn(name, n, X_original, ctx) -> expected full matrix of the transformed problem) or (None, reason)."""
    p = case["problem"]
    t, par = case["transform"], case["par"]
    N = len(p["assign"])
    nb = len(p["blocks"])
    sel = p["selection"]
    if t == "relabel":
        perm = par["perm"]  # old block b becomes block perm[b]
        q = dict(p)
        q["assign"] = [perm[a] for a in p["assign"]]
        blocks = [0] * nb
        for b in range(nb):
            blocks[perm[b]] = p["blocks"][b]
        q["blocks"] = blocks
        q["selection"] = {
            "kind": sel["kind"],
            "full": sorted(perm[b] for b in sel["full"]),
            "masks": {str(perm[int(b)]): m for b, m in sel["masks"].items()},
        }
        return q, (lambda name, n, X, ctx: X)
    if t == "permute_states":
        perm = par["perm"]
        q = dict(p)
        q["assign"] = [p["assign"][perm[a]] for a in range(N)]
        q["energy"] = [p["energy"][perm[a]] for a in range(N)]
        q["eimag"] = [p["eimag"][perm[a]] for a in range(N)]
        q["terms"] = _perm_matrix_terms(p["terms"], perm)
        if sel["kind"] == "mask":
            S = kept_mask(p)
            S2 = S[np.ix_(perm, perm)]
            masks = {}
            for b, states in enumerate(states_of(q)):
                if str(b) in sel["masks"]:
                    masks[str(b)] = [[int(not S2[i, j]) for j in states] for i in states]
            q["selection"] = {"kind": "mask", "full": [], "masks": masks}
        return q, (lambda name, n, X, ctx: X[np.ix_(perm, perm)])
    if t == "conjugate":
        q = dict(p)
        q["terms"] = {k: [[[e[0], -e[1]] for e in row] for row in M] for k, M in p["terms"].items()}
        q["eimag"] = [-x for x in p["eimag"]]
        return q, (lambda name, n, X, ctx: X.conj())
    if t == "shift":
        s = par["s"]
        q = dict(p)
        q["energy"] = [e + s for e in p["energy"]]
        if all(e == 0 for e in q["energy"]) and not any(q["eimag"]):
            return None, "shift makes H_0 vanish"

        def expect(name, n, X, ctx):
            if name == "H_tilde" and sum(n) == 0:
                from fractions import Fraction

                from vlib.exact import GQ

                Y = X.copy()
                for i in range(N):
                    Y[i, i] = Y[i, i] + (GQ(Fraction(s, p["eden"])) if ctx.exact else s / p["eden"])
                return Y
            return X

        return q, expect
    if t == "scale":
        c = par["c"]
        q = dict(p)
        q["energy"] = [e * c for e in p["energy"]]
        q["eimag"] = [e * c for e in p["eimag"]]
        q["terms"] = {k: [[[e[0] * c, e[1] * c] for e in row] for row in M] for k, M in p["terms"].items()}
        return q, (lambda name, n, X, ctx: X * c if name == "H_tilde" else X)
    if t == "rotate_degenerate":
        S = kept_mask(p)
        E = list(zip(p["energy"], p["eimag"]))
        pairs = [
            (i, j)
            for i in range(N)
            for j in range(i + 1, N)
            if p["assign"][i] == p["assign"][j] and E[i] == E[j] and (S[i] == S[j]).all() and (S[:, i] == S[:, j]).all()
        ]
        if not pairs:
            return None, "no degenerate pair with an invariant kept set"
        i, j = pairs[par["pick"] % len(pairs)]
        # exact unitary Q = 1 outside (i,j); inside (1/5) [[3, 4w],[-4 conj(w), 3]] with w = 1 or i
        Qn = [[[5 if a == b else 0, 0] for b in range(N)] for a in range(N)]
        w = (0, 1) if par["kind"] == "complex" else (1, 0)
        Qn[i][i], Qn[j][j] = [3, 0], [3, 0]
        Qn[i][j] = [4 * w[0], 4 * w[1]]
        Qn[j][i] = [-4 * w[0], 4 * w[1]]  # -4 conj(w)
        Qc = np.array([[complex(*e) for e in row] for row in Qn])  # = 5 Q
        q = dict(p)
        q["den"] = p["den"] * 25
        new_terms = {}
        for k, M in p["terms"].items():
            T = np.array([[complex(*e) for e in row] for row in M])
            T2 = Qc.conj().T @ T @ Qc  # integer Gaussian entries (scaled by 25)
            new_terms[k] = [[[int(round(z.real)), int(round(z.imag))] for z in row] for row in T2]
        q["terms"] = new_terms

        def expect(name, n, X, ctx):
            if ctx.exact:
                from fractions import Fraction

                from vlib.exact import GQ, gzeros

                Qe = gzeros((N, N))
                for a in range(N):
                    for b in range(N):
                        Qe[a, b] = GQ(Fraction(Qn[a][b][0], 5), Fraction(Qn[a][b][1], 5))
                return Qe.conj().T @ X @ Qe
            Qf = Qc / 5
            return Qf.conj().T @ X @ Qf

        return q, expect
    if t == "direct_sum":
        o = par["other"]
        if o["n_params"] != p["n_params"]:
            o = _match_params(o, p["n_params"])
        if (o["repr"] == "sympy") != (p["repr"] == "sympy"):
            o = dict(o, repr=p["repr"])
        o = dict(o, hermitian=p["hermitian"])
        # common energy denominator (problems of the far-offset class use 32, the others 4)
        ed = max(p["eden"], o["eden"])
        if p["eden"] != ed:
            f = ed // p["eden"]
            p = dict(p, eden=ed, energy=[e * f for e in p["energy"]], eimag=[e * f for e in p["eimag"]], ref_shift=p.get("ref_shift", 0) * f)
        if o["eden"] != ed:
            f = ed // o["eden"]
            o = dict(o, eden=ed, energy=[e * f for e in o["energy"]], eimag=[e * f for e in o["eimag"]], ref_shift=o.get("ref_shift", 0) * f)
        N2 = len(o["assign"])
        # put the second problem far away in energy: all cross energies distinct
        off = max(p["energy"]) - min(o["energy"]) + 10 * ed
        den = p["den"] * o["den"]
        q = dict(p)
        order = list(range(N + N2))
        if par["interleave"]:
            order = sorted(order, key=lambda a: (a % max(N, N2), a >= N))
        src = [("p", a) if a < N else ("o", a - N) for a in order]
        q["assign"] = [p["assign"][a] if w == "p" else nb + o["assign"][a] for w, a in src]
        q["blocks"] = list(p["blocks"]) + list(o["blocks"])
        q["energy"] = [p["energy"][a] if w == "p" else o["energy"][a] + off for w, a in src]
        q["eimag"] = [p["eimag"][a] if w == "p" else o["eimag"][a] for w, a in src]
        q["den"] = den
        keys = set(p["terms"]) | set(o["terms"])
        new_terms = {}
        for k in keys:
            Mp, Mo = p["terms"].get(k), o["terms"].get(k)
            M = [[[0, 0] for _ in range(N + N2)] for _ in range(N + N2)]
            for x, (w1, a) in enumerate(src):
                for y, (w2, b) in enumerate(src):
                    if w1 != w2:
                        continue
                    if w1 == "p" and Mp is not None:
                        M[x][y] = [Mp[a][b][0] * o["den"], Mp[a][b][1] * o["den"]]
                    elif w1 == "o" and Mo is not None:
                        M[x][y] = [Mo[a][b][0] * p["den"], Mo[a][b][1] * p["den"]]
            new_terms[k] = M
        q["terms"] = new_terms
        so = o["selection"]
        q["selection"] = _merge_selection(sel, so, nb)
        q["K"] = min(p["K"], o["K"])
        q["ref_shift"] = 0
        return q, ("direct_sum", p, o, src, off)
    raise AssertionError(t)


def _match_params(o, k):
    """Re-express problem o with k parameters (pad with absent ones or drop the extra ones)."""
    ko = o["n_params"]
    terms = {}
    for s, M in o["terms"].items():
        key = order_key(s)
        if ko > k:
            if any(key[k:]):
                continue
            key = key[:k]
        else:
            key = key + (0,) * (k - ko)
        terms[",".join(map(str, key))] = M
    return dict(o, n_params=k, terms=terms)


def _merge_selection(a, b, nb):
    if a["kind"] == "none" and b["kind"] == "none":
        return {"kind": "none", "full": [], "masks": {}}
    if a["kind"] in ("none", "full") and b["kind"] in ("none", "full"):
        return {"kind": "full", "full": sorted(list(a["full"]) + [nb + x for x in b["full"]]), "masks": {}}
    return None  # mixing tuple and mask forms cannot be expressed in one call


def check_case(case, enforce_all=False):
    out = Outcome()
    p = case["problem"]
    t = case["transform"]
    out.labels = bd_checks.labels_for(p) + [f"transform={t}", "mode=hermitian" if p["hermitian"] else "mode=nonhermitian"]
    from props.c05 import in_k1_class

    if not p["hermitian"] and in_k1_class(p):
        out.labels.append("skipped:K1-class")
        out.excluded.append("K1")
        return out
    q, expect = transform(case)
    if q is None:
        out.labels.append("skipped:" + expect.replace(" ", "-"))
        return out
    if p.get("ulp"):
        # the original has "almost equal" levels (degenerate for the library, |dE| = 5.7e-14 < atol, but not bit-identical);
        # the transformed problem is posed with exactly equal ones: one and the same degenerate level either way
        q = dict(q, ulp=False)
    if t == "direct_sum":
        return _check_direct_sum(case, out, p, q, expect)
    if len(p["blocks"]) == 1 and q.get("selection", {}).get("kind") == "none":
        pass
    ctx0, res0 = mm.outputs(p, out, "original problem")
    if res0 is None:
        return out
    ctx1, res1 = mm.outputs(q, out, f"transformed problem ({t})", order=case["par"].get("req_order"))
    if res1 is None:
        return out
    if t == "shift":
        zero_before = any(e == 0 for e in p["energy"])
        zero_after = any(e == 0 for e in q["energy"])
        if zero_before != zero_after:
            out.labels.append("shift-creates-zero-block")
    for n in ctx1.orders:
        scale = max(mm.scale_of(ctx1, res1, n), mm.scale_of(ctx0, res0, n))
        for name, key in mm.NAMES:
            exp = expect(name, n, res0[key][n], ctx0)
            if not mm.compare(ctx1, out, f"{t}-{name}", f"{name}{list(n)} after {t} {_short(case['par'])}", res1[key][n], exp, scale):
                return out
    moved = t == "relabel" and (case["par"]["perm"][0] != 0 or case["par"]["perm"][-1] != len(p["blocks"]) - 1)
    rich = len(p["blocks"]) >= 3 or p["selection"]["kind"] != "none" or moved or "shift-creates-zero-block" in out.labels
    out.nontrivial = bool(rich and any(sum(n) >= 2 and bd_checks.nonzero(res0["U"][n]) for n in ctx0.orders))
    return out


def _check_direct_sum(case, out, p, q, info):
    _, p, o, src, off = info
    from props.c05 import in_k1_class

    if not p["hermitian"] and in_k1_class(o):
        out.labels.append("skipped:K1-class")
        out.excluded.append("K1")
        return out
    if q["selection"] is None:
        out.labels.append("skipped:selection-forms-cannot-be-combined")
        return out
    K = q["K"]
    p2, o2 = dict(p, K=K), dict(o, K=K)
    # a single block without selection is fully diagonalised by default; inside the sum it is not
    for prob, base in ((p2, 0), (o2, len(p["blocks"]))):
        if len(prob["blocks"]) == 1 and prob["selection"]["kind"] == "none":
            prob["selection"] = {"kind": "full", "full": [0], "masks": {}}
            q["selection"] = {"kind": "full", "full": sorted(set(q["selection"]["full"]) | {base}), "masks": {}}
    ctxp, resp = mm.outputs(p2, out, "first summand")
    if resp is None:
        return out
    ctxo, reso = mm.outputs(o2, out, "second summand")
    if reso is None:
        return out
    ctxq, resq = mm.outputs(q, out, "direct sum", order=case["par"].get("req_order"))
    if resq is None:
        return out
    idx_p = [x for x, (w, a) in enumerate(src) if w == "p"]
    idx_o = [x for x, (w, a) in enumerate(src) if w == "o"]
    pos_p = [a for (w, a) in src if w == "p"]
    pos_o = [a for (w, a) in src if w == "o"]
    for n in ctxq.orders:
        scale = mm.scale_of(ctxq, resq, n)
        for name, key in mm.NAMES:
            exp = mm.zeros_like_ctx(ctxq)
            A, B = resp[key][n], reso[key][n]
            for x, a in zip(idx_p, pos_p):
                for y, b in zip(idx_p, pos_p):
                    exp[x, y] = A[a, b]
            for x, a in zip(idx_o, pos_o):
                for y, b in zip(idx_o, pos_o):
                    exp[x, y] = B[a, b]
            if name == "H_tilde" and sum(n) == 0:
                from fractions import Fraction

                from vlib.exact import GQ

                for x in idx_o:
                    exp[x, x] = exp[x, x] + (GQ(Fraction(off, o["eden"])) if ctxq.exact else off / o["eden"])
            if not mm.compare(ctxq, out, f"direct_sum-{name}", f"{name}{list(n)} of the direct sum", resq[key][n], exp, scale):
                return out
    out.nontrivial = bool(any(sum(n) >= 2 and bd_checks.nonzero(resq["U"][n]) for n in ctxq.orders))
    return out


def _short(par):
    return {k: v for k, v in par.items() if k != "other"}
