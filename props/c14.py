"""C14 - all input formats and eigenbases give the same result (differential)."""
from __future__ import annotations

import warnings
from fractions import Fraction

import numpy as np
from hypothesis import strategies as st

from vlib import bd_checks
from vlib.cauchy import orders_upto
from vlib.gen_matrix import frame_effective, energies, library_input, order_key, problems, states_of, to_oracle
from vlib.runner import Outcome

ID = "C14"
LEVEL = "exploration"
LEVEL_TEXT = (
    "Differential generated search: one abstract Hamiltonian series is handed to block_diagonalize in the canonical "
    "form (dict with order tuples + subspace_indices) and in a drawn variant - list, dict with sympy monomial keys, "
    "sympy matrix polynomial in symbols, sympy matrix with analytic dependence (sin, exp, log, geometric series, "
    "products; Taylor coefficients supplied to the canonical form in closed form by the oracle, never by "
    "differentiation), nested block lists, user BlockSeries (blocked or matrix-valued), identity-column "
    "subspace_eigenvectors (dense / sparse), an exactly unitary rotated eigenbasis, a biorthogonal (R, L) basis - with "
    "dense, sparse or exact symbolic values. Every block of H_tilde, U and U_inv at every multi-order must agree by "
    "value (exactly for exact inputs). operator_to_BlockSeries is compared with the dense blocks L_i^dagger A R_j. No proof."
)
LEVEL_NOTE = (
    "Trusted: the format-construction code in props/c14.py and closed-form Taylor coefficients. Conventions that are "
    "part of the comparison: sympy-Matrix input returns elements multiplied by the monomial of the symbols "
    "(substituted by 1), and a vanishing element may be the zero sentinel in one format and an explicit zero matrix in "
    "another (compared by value). Bounds: N <= 7 (symbolic N <= 4), <= 3 parameters, total order <= 3."
)
TECHNIQUE = "differential property-based testing (Hypothesis) across input formats, value types and eigenbases"
BUDGET = {"quick": 560, "thorough": 20000}
SHRINK_SECONDS = {"quick": 40, "thorough": 200}
RULE = (
    "case = (problem, variant in {list, monomial_keys, sympy_poly, sympy_analytic, nested_blocks, blockseries_blocked, "
    "blockseries_scalar, eigvec_identity_dense, eigvec_identity_sparse, rotated_unitary, biorthogonal, "
    "operator_to_BlockSeries}, parameters). Non-trivial = values at total order >= 2 were compared and are not all zero, "
    "and the variant or the value type is symbolic, sparse, analytic or a non-trivial basis."
)
ASSUMPTIONS = ["variants that do not apply to the drawn problem (e.g. list input with higher-order terms) are recorded as skipped, not as passes"]
REQUIRED_CLASSES = {"all": ["variant=list", "variant=monomial_keys", "variant=sympy_poly", "variant=sympy_analytic", "variant=nested_blocks",
                            "variant=blockseries_blocked", "variant=blockseries_scalar", "variant=eigvec_identity_dense", "variant=eigvec_identity_sparse",
                            "variant=rotated_unitary", "variant=biorthogonal", "variant=operator_to_BlockSeries", "repr=sparse", "repr=sympy"]}

VARIANTS = ["list", "monomial_keys", "sympy_poly", "sympy_analytic", "nested_blocks", "blockseries_blocked", "blockseries_scalar",
            "eigvec_identity_dense", "eigvec_identity_sparse", "rotated_unitary", "biorthogonal", "operator_to_BlockSeries"]
# closed-form Taylor coefficients c_0..c_3 (numerators over 6)
FUNCS = {
    "sin": [0, 6, 0, -1], "expm1": [0, 6, 3, 1], "geom": [0, 6, 6, 6], "log1p": [0, 6, -3, 2], "coshm1": [0, 0, 3, 0], "xcos": [0, 6, 0, -3],
}


def strategy(tier):
    herm = problems(tier, hermitian=True, max_K=3)
    nh = problems(tier, hermitian=False, complex_energy=True, max_K=3)
    small = problems(tier, hermitian=True, max_N=4, max_blocks=3, reprs=("sympy",), max_params=2, max_K=3)

    @st.composite
    def cases(draw):
        v = draw(st.sampled_from(VARIANTS + ["sympy_poly", "sympy_analytic", "sympy_analytic", "rotated_unitary", "rotated_unitary", "biorthogonal"]))
        if v in ("sympy_poly", "sympy_analytic"):
            p = draw(small)
        elif v == "biorthogonal":
            p = draw(nh)
        else:
            p = draw(st.one_of(herm, herm, nh))
        if v == "monomial_keys" and p["n_params"] >= 2:
            # make sure a product key that contains a power (x**2*y) occurs, and that its order is reached
            k_ = p["n_params"]
            terms = dict(p["terms"])
            first = sorted(s_ for s_ in terms if sum(order_key(s_)) == 1)
            o = [2, 1] + [0] * (k_ - 2) if draw(st.booleans()) else [0] * (k_ - 2) + [1, 2]
            terms.setdefault(",".join(map(str, o)), terms[first[0]])
            p = dict(p, terms=terms, K=max(p["K"], 3))
        N = len(p["assign"])
        par = {
            "funcs": [draw(st.sampled_from(sorted(FUNCS))) for _ in range(p["n_params"])],
            "cross": draw(st.integers(0, 3)) > 0,
            "rot": [[draw(st.integers(0, max(N - 1, 0))), draw(st.integers(0, max(N - 1, 0))), draw(st.sampled_from(["r", "c", "p"]))] for _ in range(draw(st.integers(1, 3)))],
            "shear": [[draw(st.integers(0, max(N - 1, 0))), draw(st.integers(0, max(N - 1, 0))), draw(st.sampled_from([1, -1, 2]))] for _ in range(draw(st.integers(1, 3)))],
            # biorthogonal variant only: make the perturbations Hermitian in the (oblique) lab frame
            "lab_hermitian": draw(st.booleans()),
        }
        return {"problem": p, "variant": v, "par": par}

    return cases()


# ----------------------------------------------------------------------------- helpers
def _blocks_of(run_series, nb, orders, what, out):
    """dict (name, i, j, n) -> oracle value or 'zero'/'one' for all three series."""
    from pymablock.series import one, zero

    res = {}
    for n in orders:
        for name, series in run_series.items():
            for i in range(nb):
                for j in range(nb):
                    try:
                        with warnings.catch_warnings():
                            warnings.simplefilter("ignore")
                            v = series[(i, j) + n]
                    except Exception as exc:  # noqa: BLE001
                        out.fail("exception", f"{what}: {name}[{i},{j},{list(n)}] raised {type(exc).__name__}: {str(exc)[:200]}")
                        return None
                    res[(name, i, j, n)] = "zero" if v is zero else "one" if v is one else v
    return res


def _num(v, symbols=None):
    """Library value -> complex ndarray (sympy symbols of a symbolic-matrix input are set to 1)."""
    import sympy

    if isinstance(v, sympy.MatrixBase):
        if symbols:
            v = v.subs({s: 1 for s in symbols})
        return np.array(v.evalf(30).tolist(), dtype=complex)
    return to_oracle(v, False)


def _exact(v, symbols=None):
    import sympy

    if isinstance(v, sympy.MatrixBase):
        if symbols:
            v = v.subs({s: 1 for s in symbols})
        return sympy.ImmutableMatrix(v.applyfunc(sympy.nsimplify))
    return None


def _equal(a, b, symbols_b=None):
    """Compare a canonical-form element with a variant element by value."""
    import sympy

    if isinstance(a, str) and isinstance(b, str):
        return a == b, 0.0
    if isinstance(a, str) or isinstance(b, str):
        s, v = (a, b) if isinstance(a, str) else (b, a)
        arr = _num(v, symbols_b)
        if s == "zero":
            return (not np.any(np.abs(arr) > 1e-12)), float(np.abs(arr).max() if arr.size else 0)
        return (arr.shape[0] == arr.shape[1] and np.allclose(arr, np.eye(arr.shape[0]), atol=1e-12)), 0.0
    if isinstance(a, sympy.MatrixBase) and isinstance(b, sympy.MatrixBase):
        bb = b.subs({s: 1 for s in symbols_b}) if symbols_b else b
        if a.shape != bb.shape:
            return False, float("inf")
        d = (a - bb).applyfunc(sympy.simplify)
        return d.is_zero_matrix is True, float(max((abs(complex(x)) for x in d), default=0.0))
    x, y = _num(a), _num(b, symbols_b)
    if x.shape != y.shape:
        return False, float("inf")
    dev = float(np.abs(x - y).max()) if x.size else 0.0
    return dev <= 1e-9 * max(1.0, float(np.abs(x).max() if x.size else 0.0)), dev


def _unitary(par, N, exact):
    """Exactly unitary matrix: product of 3-4-5 rotations / phase rotations / swaps (numerators, common denominator)."""
    import sympy

    Q = sympy.eye(N)
    for a, b, kind in par["rot"]:
        if a == b or N < 2:
            continue
        G = sympy.eye(N)
        if kind == "p":
            G[a, a] = G[b, b] = 0
            G[a, b] = G[b, a] = 1
        else:
            w = sympy.I if kind == "c" else 1
            G[a, a] = G[b, b] = sympy.Rational(3, 5)
            G[a, b] = sympy.Rational(4, 5) * w
            G[b, a] = -sympy.Rational(4, 5) * sympy.conjugate(w)
        Q = Q * G
    return Q


def _shear(par, N):
    import sympy

    R = sympy.eye(N)
    for a, b, c in par["shear"]:
        if a == b or N < 2:
            continue
        S = sympy.eye(N)
        S[a, b] = sympy.Rational(c, 2)
        R = R * S
    return R


def _sym_terms(p):
    """dict order -> sympy Matrix (exact) of every term including H_0."""
    import sympy

    N = len(p["assign"])
    out = {}
    for key, M in p["terms"].items():
        out[order_key(key)] = sympy.Matrix(N, N, lambda i, j: sympy.Rational(M[i][j][0], p["den"]) + sympy.I * sympy.Rational(M[i][j][1], p["den"]))
    out[(0,) * p["n_params"]] = sympy.diag(*[sympy.Rational(e, p["eden"]) + sympy.I * sympy.Rational(im, p["eden"]) for e, im in zip(p["energy"], p["eimag"])])
    return out


def _typed(M, rep):
    """sympy Matrix -> value of the problem's representation."""
    from scipy import sparse

    if rep == "sympy":
        return M
    A = np.array(M.evalf(30).tolist(), dtype=complex)
    if not np.any(A.imag):
        A = A.real.copy()
    return sparse.csr_array(A) if rep == "sparse" else A


# ---------------------------------------------------------------------------- check_case
def check_case(case, enforce_all=False):
    import sympy
    from scipy import sparse

    from pymablock import block_diagonalize, operator_to_BlockSeries
    from pymablock.series import BlockSeries, zero

    out = Outcome()
    p = dict(case["problem"])
    v, par = case["variant"], case["par"]
    N, nb, k, K = len(p["assign"]), len(p["blocks"]), p["n_params"], p["K"]
    if p["repr"] == "sympy" and v in ("rotated_unitary", "biorthogonal", "operator_to_BlockSeries"):
        # Projecting exact *complex* data on rotated vectors leaves unexpanded products (3*(2 + I)/5 ...), and the
        # library compares symbolic energies structurally (documented limitation: "not simplified enough"). Exact
        # arithmetic is therefore used for these variants only with purely real data and real rotations; complex
        # cases run in floating point.
        cplx = any(p["eimag"]) or any(e[1] for M in p["terms"].values() for row in M for e in row) or any(r[2] == "c" for r in par["rot"])
        if cplx:
            p["repr"] = "dense"
            out.labels.append("sympy->dense(complex-data)")
    if p["repr"] != "sympy" and p.get("ref_shift") and v in ("rotated_unitary", "biorthogonal", "operator_to_BlockSeries"):
        # A 3-4-5 rotation of levels sitting on the offset 4096 is not exactly representable in floating point: the
        # rotated H_0 is block diagonal only up to ~4096 x 2e-16 ~ 1e-12, which is the library's (absolute, documented)
        # tolerance for "H_0 is block diagonal" - the input would violate a precondition, not the library the property.
        # The float versions of these variants therefore run without the common offset (shift covariance is C15's).
        sh = p["ref_shift"]
        en = [e - sh for e in p["energy"]]
        if not any(en) and not any(p["eimag"]):
            en = [e + p["eden"] for e in en]
        p = dict(p, energy=en, ref_shift=0)
        out.labels.append("offset-removed-for-float-rotation")
    rep = p["repr"]
    out.labels += bd_checks.labels_for(p) + [f"variant={v}", "mode=hermitian" if p["hermitian"] else "mode=nonhermitian"]
    st_ = states_of(p)
    orders = orders_upto(k, K)
    zero_order = (0,) * k
    symbols_b = None
    names = ("H_tilde", "U", "U_inv")

    def run(ham, kwargs, what):
        try:
            with warnings.catch_warnings():
                warnings.simplefilter("ignore")
                res = block_diagonalize(ham, **kwargs)
        except Exception as exc:  # noqa: BLE001
            out.fail("exception", f"{what}: block_diagonalize raised {type(exc).__name__}: {str(exc)[:200]}")
            return None
        return dict(zip(names, res))

    # ------------------------------------------------------------------ analytic dependence: rebuild the problem
    if v == "sympy_analytic":
        first = {o: M for o, M in ((order_key(s), M) for s, M in p["terms"].items()) if sum(o) == 1}
        if len(first) == 0:
            out.labels.append("skipped:no-first-order-term")
            return out
        # all Taylor coefficients over the common denominator 36 * den
        acc = {}

        def add_term(key, M, factor):
            cur = acc.get(key)
            new = [[[e[0] * factor, e[1] * factor] for e in row] for row in M]
            acc[key] = new if cur is None else [[[x[0] + y[0], x[1] + y[1]] for x, y in zip(rx, ry)] for rx, ry in zip(cur, new)]

        for o, M in first.items():
            q = o.index(1)
            c = FUNCS[par["funcs"][q]]
            for n in range(1, K + 1):
                if c[n]:
                    add_term(tuple(n if j == q else 0 for j in range(k)), M, 6 * c[n])
        if par["cross"] and k >= 2:
            # product term g_0(x_0) * g_1(x_1) * T with T the first first-order matrix
            M = next(iter(first.values()))
            c0, c1 = FUNCS[par["funcs"][0]], FUNCS[par["funcs"][1]]
            for n0 in range(1, K):
                for n1 in range(1, K - n0 + 1):
                    if c0[n0] * c1[n1]:
                        add_term((n0, n1) + (0,) * (k - 2), M, c0[n0] * c1[n1])
        terms36 = {",".join(map(str, key)): M for key, M in acc.items()}
        p = dict(p, terms=terms36, den=p["den"] * 36, repr="sympy")
        rep = "sympy"
    if v == "biorthogonal" and par.get("lab_hermitian"):
        # the canonical problem becomes T_k = R^-1 (M_k + M_k^dagger) R, so that the lab-frame terms R T_k R^-1 handed
        # over together with the (R, L) pairs are Hermitian although H_0 and the frame are not
        p = frame_effective(p, {"shear": par["shear"], "lab_hermitian": True})
        out.labels.append("biorthogonal:lab-hermitian-terms")
    base_ham, base_kwargs = library_input(p)
    base = run(base_ham, base_kwargs, "canonical form")
    if base is None:
        return out
    sym = _sym_terms(p)
    kw = dict(base_kwargs)
    ham = None
    skipped = None
    if v == "list":
        pure = all(sum(o) == 1 for o in sym if o != zero_order) and all(tuple(int(q == j) for q in range(k)) in sym for j in range(k))
        if not pure:
            skipped = "terms-are-not-pure-first-order"
        else:
            ham = [_typed(sym[zero_order], rep)] + [_typed(sym[tuple(int(q == j) for q in range(k))], rep) for j in range(k)]
    elif v == "monomial_keys":
        syms = sympy.symbols("a_0:%d" % k)  # sorted by name by the library: a_0 < a_1 < ...
        ham = {}
        used = set()
        for o, M in sym.items():
            mono = sympy.Integer(1)
            for s_, e_ in zip(syms, o):
                mono = mono * s_**e_
                if e_:
                    used.add(s_)
            ham[mono] = _typed(M, rep)
        if len(used) != k:
            skipped = "a-parameter-has-no-term"
    elif v in ("sympy_poly", "sympy_analytic"):
        # names in reverse alphabetical order: the parameter order is what `symbols=` says, not the sorted names
        syms = [sympy.Symbol("%s_par" % "zyxwv"[j], real=True) for j in range(k)]
        symbols_b = syms
        if v == "sympy_poly":
            H = sympy.zeros(N)
            for o, M in sym.items():
                mono = sympy.Integer(1)
                for s_, e_ in zip(syms, o):
                    mono = mono * s_**e_
                H = H + mono * M
        else:
            fn = {"sin": sympy.sin, "expm1": lambda x: sympy.exp(x) - 1, "geom": lambda x: x / (1 - x), "log1p": lambda x: sympy.log(1 + x),
                  "coshm1": lambda x: sympy.cosh(x) - 1, "xcos": lambda x: x * sympy.cos(x)}
            orig = _sym_terms(case["problem"])
            H = orig[zero_order]
            firsts = [(o, M) for o, M in orig.items() if sum(o) == 1]
            for o, M in firsts:
                q = o.index(1)
                H = H + fn[par["funcs"][q]](syms[q]) * M
            if par["cross"] and k >= 2 and firsts:
                H = H + fn[par["funcs"][0]](syms[0]) * fn[par["funcs"][1]](syms[1]) * firsts[0][1]
        if any(s_ not in H.free_symbols for s_ in syms):
            skipped = "a-parameter-does-not-appear"
        ham = sympy.Matrix(H)
        kw["symbols"] = list(syms)
    elif v == "nested_blocks":
        if p["assign"] != sorted(p["assign"]):
            skipped = "states-are-interleaved"
        else:
            ham = {}
            for o, M in sym.items():
                ham[o] = [[_typed(M[st_[i], st_[j]], rep) for j in range(nb)] for i in range(nb)]
            kw.pop("subspace_indices")
    elif v in ("blockseries_blocked", "blockseries_scalar"):
        vals = {o: _typed(M, rep) for o, M in sym.items()}

        def ev_scalar(*index):
            M = vals.get(tuple(int(q) for q in index))
            return zero if M is None else M

        def ev_blocked(*index):
            M = sym.get(tuple(int(q) for q in index[2:]))
            if M is None:
                return zero
            blk = M[st_[int(index[0])], st_[int(index[1])]]
            return zero if blk.is_zero_matrix else _typed(blk, rep)

        if v == "blockseries_scalar":
            ham = BlockSeries(eval=ev_scalar, shape=(), n_infinite=k)
        else:
            ham = BlockSeries(eval=ev_blocked, shape=(nb, nb), n_infinite=k)
            kw.pop("subspace_indices")
    elif v in ("eigvec_identity_dense", "eigvec_identity_sparse"):
        ham = base_ham
        kw.pop("subspace_indices")
        if rep == "sympy":
            kw["subspace_eigenvectors"] = [sympy.eye(N)[:, s] for s in st_]
        elif v.endswith("sparse"):
            kw["subspace_eigenvectors"] = [sparse.csr_array(np.eye(N)[:, s]) for s in st_]
        else:
            kw["subspace_eigenvectors"] = [np.eye(N)[:, s] for s in st_]
    elif v in ("rotated_unitary", "biorthogonal"):
        if v == "rotated_unitary":
            R = _unitary(par, N, True)
            Rinv = R.H
        else:
            R = _shear(par, N)
            Rinv = R.inv()
        if R == sympy.eye(N):
            skipped = "trivial-basis-change"
        ham = {o: _typed(R * M * Rinv, rep) for o, M in sym.items()}
        kw.pop("subspace_indices")
        Lmat = Rinv.H
        conv = (lambda M: M) if rep == "sympy" else (lambda M: np.array(M.evalf(30).tolist(), dtype=complex))
        if rep == "sparse":
            # sparse problems hand over sparse (complex, for "c" rotations) eigenvectors as well
            dense_conv = conv
            conv = lambda M: sparse.csr_array(dense_conv(M))  # noqa: E731
            out.labels.append("sparse-eigenvectors")
        if v == "rotated_unitary":
            kw["subspace_eigenvectors"] = [conv(R[:, s]) for s in st_]
        else:
            kw["subspace_eigenvectors"] = [(conv(R[:, s]), conv(Lmat[:, s])) for s in st_]
    elif v == "operator_to_BlockSeries":
        R = _shear(par, N) if not p["hermitian"] else _unitary(par, N, True)
        Rinv = R.inv()
        Lmat = Rinv.H
        conv = (lambda M: M) if rep == "sympy" else (lambda M: np.array(M.evalf(30).tolist(), dtype=complex))
        if rep == "sparse":
            dense_conv2 = conv
            conv = lambda M: sparse.csr_array(dense_conv2(M))  # noqa: E731
            out.labels.append("sparse-eigenvectors")
        A = {o: _typed(M, rep) for o, M in sym.items()}
        vecs = [(conv(R[:, s]), conv(Lmat[:, s])) for s in st_] if not p["hermitian"] else [conv(R[:, s]) for s in st_]
        try:
            with warnings.catch_warnings():
                warnings.simplefilter("ignore")
                op = operator_to_BlockSeries(A, subspace_eigenvectors=vecs, hermitian=bool(p["hermitian"]), name="A")
                for o, M in sym.items():
                    for i in range(nb):
                        for j in range(nb):
                            got = op[(i, j) + o]
                            exp = Lmat[:, st_[i]].H * M * R[:, st_[j]]
                            ok, dev = _equal("zero" if got is zero else got, exp if rep == "sympy" else np.array(exp.evalf(30).tolist(), dtype=complex))
                            if not ok:
                                out.fail("projection", f"operator_to_BlockSeries block ({i},{j}) at order {list(o)} deviates from L_i^dagger A R_j by {dev:.3g}")
                                return out
        except Exception as exc:  # noqa: BLE001
            out.fail("exception", f"operator_to_BlockSeries raised {type(exc).__name__}: {str(exc)[:200]}")
            return out
        out.nontrivial = bool(R != sympy.eye(N) and K >= 2)
        return out
    if skipped:
        out.labels.append("skipped:" + skipped)
        return out
    var = run(ham, kw, f"variant {v}")
    if var is None:
        return out
    A = _blocks_of(base, nb, orders, "canonical form", out)
    if A is None:
        return out
    B = _blocks_of(var, nb, orders, f"variant {v}", out)
    if B is None:
        return out
    seen2 = False
    for key, a in A.items():
        ok, dev = _equal(a, B[key], symbols_b)
        if not ok:
            name, i, j, n = key
            out.fail(f"format-{name}", f"{name}[{i},{j},{list(n)}] differs between the canonical form and variant {v} ({rep}) by {dev:.3g}")
            return out
        if sum(key[3]) >= 2 and not isinstance(a, str):
            seen2 = True
    special = rep != "dense" or v in ("sympy_poly", "sympy_analytic", "rotated_unitary", "biorthogonal", "eigvec_identity_sparse", "monomial_keys")
    out.nontrivial = bool(seen2 and special)
    return out
