"""C07 - second-quantised block diagonalisation agrees with matrices on Fock states."""
from __future__ import annotations

import itertools
import warnings
from fractions import Fraction

import numpy as np
from hypothesis import strategies as st

from vlib import refsolve
from vlib.runner import Outcome

ID = "C07"
LEVEL = "exploration"
LEVEL_TEXT = (
    "Generated search over second-quantised Hamiltonians: 1-3 modes of mixed statistics (boson, ladder, spin-1/2, "
    "fermion), number-conserving H_0 = sum w_i N_i (+ optional Kerr / cross-Kerr terms) with rational frequencies "
    "that are non-resonant by construction for every reachable shift, perturbation W + W^dagger with W a polynomial "
    "of 1-3 words (pairing terms, a^2, a b^dagger, sigma^+ a, N a ...), scalar and matrix-valued input, operator "
    "elimination masks. Each order of the operator-valued H_tilde and U returned by block_diagonalize is evaluated "
    "on a truncated Fock space through an independent matrix model and compared, on states away from the truncation "
    "edge (vacuum and other boundary occupations included), with the reference block diagonalisation of the "
    "corresponding matrices; U^dagger U = 1 and U^dagger H U = H_tilde are checked through the same model. No proof."
)
LEVEL_NOTE = (
    "Trusted: vlib/fock.py, vlib/refsolve.solve_hermitian (self-checking), numpy. Tolerance max(1e-8 x magnitude, 1e-13 x largest reference element so far x |H_0|). "
    "Coefficients with poles at integers (known finding K3 of C08) cannot arise: every reachable energy difference is "
    ">= 1/4 by construction. Bounds: orders <= 2 (quick) / 3 (thorough), words of <= 3 operators, <= 3 modes, <= ~500 states."
)
TECHNIQUE = "property-based testing (Hypothesis): operator-valued results vs matrix block diagonalisation on a truncated Fock space"
BUDGET = {"quick": 480, "thorough": 4000}
SHRINK_SECONDS = {"quick": 40, "thorough": 300}
RULE = (
    "case = (modes, rational frequencies + optional interaction, 1-3 perturbation words with rational coefficients, "
    "input form scalar / 1x1 matrix / 2-block matrix / 3-block matrix with pairwise different offsets / 2 blocks with fully_diagonalize=[1] / 2 blocks coupled only by +-(2i/3) N_0, optional operator mask, order K). Non-trivial = (>= 2 modes or a "
    "number-dependent denominator) and H_tilde or U at order >= 2 has a non-zero matrix element on a column whose "
    "occupation contains a boundary value (0, or spin/fermion occupation)."
)
ASSUMPTIONS = [
    "every Fock-state pair coupled within K x (word degree) shifts is non-degenerate with |dE| >= 1/4 (constructed and verified by enumeration)",
    "comparison restricted to input states at least K x degree + 1 away from the truncation edge",
]
REQUIRED_CLASSES = {"all": ["modes>=2", "has-fermion", "has-boson", "form=scalar", "form=blocks", "form=blocks3", "form=blocks_fd", "form=blocks_cn", "interaction", "operator-mask", "matrix-valued-mask"]}

MODE_SETS = [
    [["b", "a"]], [["b", "a"], ["s", "s"]], [["f", "f"], ["f", "g"]], [["b", "a"], ["f", "f"]], [["f", "f"], ["f", "g"], ["f", "h"]],
    [["b", "a"], ["b", "b"]], [["l", "l"], ["s", "s"]], [["s", "s"], ["f", "f"]], [["b", "a"], ["f", "f"], ["f", "g"]], [["b", "a"], ["l", "l"]],
]
FREQ = [Fraction(1), Fraction(7, 2), Fraction(45, 4), Fraction(5, 2), Fraction(27, 4), Fraction(3, 2), Fraction(19, 2)]


# block layouts of the matrix-valued forms: (energy offsets, integer coupling matrix C with h_1[i][j] = C[i][j] H_1,
# fully diagonalised blocks).  Mode energies are multiples of 1/16; the offsets and all their differences are odd
# multiples of 1/32 or 1/64, so no two states of different blocks are closer than 1/64.
LAYOUTS = {
    "blocks": ([Fraction(0), Fraction(405, 32)], [[1, 1], [1, -1]], ()),
    "blocks_fd": ([Fraction(0), Fraction(405, 32)], [[1, 1], [1, -1]], (1,)),
    "blocks3": ([Fraction(0), Fraction(405, 32), Fraction(1003, 64)], [[1, 1, 2], [1, -1, 1], [2, 1, 3]], ()),
    # the perturbation inside the blocks, and a purely number-conserving inter-block coupling with a non-real coefficient, +-(2i/3) N_0
    "blocks_cn": ([Fraction(0), Fraction(405, 32)], [[1, 0], [0, -1]], ()),
}
GN = {"blocks_cn": Fraction(2, 3)}


@st.composite
def _case(draw, tier):
    modes = draw(st.sampled_from(MODE_SETS))
    # third order only for one or two modes in the thorough tier (the symbolic third order of three-mode problems takes
    # the library many minutes per case)
    K = 2 if tier == "quick" or len(modes) > 2 else draw(st.sampled_from([2, 2, 3]))
    n_words = draw(st.integers(1, 3))
    words = []
    for _ in range(n_words):
        L = draw(st.integers(1, 3 if len(modes) > 1 or K == 2 else 2))
        w = []
        for _ in range(L):
            k = draw(st.integers(0, len(modes) - 1))
            w.append([draw(st.sampled_from(["op", "dag", "op", "dag", "num"])), k])
        if not any(t != "num" for t, _ in w):
            w[0][0] = "op"
        words.append({"ops": w, "coef": [draw(st.sampled_from([1, 2, -1, 3])), draw(st.sampled_from([1, 2, 3])), draw(st.sampled_from([0, 0, 1]))]})
    perm = draw(st.permutations(range(len(FREQ))))
    return {
        "modes": modes, "K": K, "words": words, "freq_order": list(perm),
        "interaction": draw(st.sampled_from([None, None, "kerr", "cross"])),
        "form": draw(st.sampled_from(["scalar", "scalar", "matrix1", "blocks", "matrix2mask", "blocks3", "blocks_fd", "blocks_cn"] if K == 2 else ["scalar", "scalar", "matrix1", "blocks", "blocks_cn"])),
        # operator-valued elimination mask: eliminate only the shifts of these perturbation words (and their adjoints)
        "mask_words": sorted(draw(st.sets(st.integers(0, n_words - 1), min_size=1))) if draw(st.integers(0, 2)) == 0 else None,
        # symbolic-power mask  a**(k+p) + Dagger(a)**(k+p): eliminate every pure shift of the first boson/ladder mode by >= p
        "power_mask": draw(st.sampled_from([None, None, None, 1, 2])),
    }


def strategy(tier):
    return _case(tier)


# ------------------------------------------------------------------------------ building
def _word_expr(word, ops, NumberOperator):
    import sympy
    from sympy.physics.quantum import Dagger

    e = sympy.Integer(1)
    for t, k in word["ops"]:
        op = ops[k]
        e = e * (op if t == "op" else Dagger(op) if t == "dag" else NumberOperator(op))
    c = sympy.Rational(word["coef"][0], word["coef"][1]) * (sympy.I if word["coef"][2] else 1)
    return c * e


def _shift(word, n_modes):
    s = [0] * n_modes
    for t, k in word["ops"]:
        s[k] += -1 if t == "op" else 1 if t == "dag" else 0
    return tuple(s)


def build(case):
    """-> dict with sympy H_0, H_1, ops, frequencies, reachable shifts or None if no non-resonant assignment exists."""
    import sympy
    from sympy.physics.quantum import Dagger

    from pymablock.number_ordered_form import NumberOperator
    from vlib.fock import make_ops

    ops = make_ops(case["modes"])
    names = [str(o.name) for o in ops]
    kinds = [m[0] for m in sorted(case["modes"], key=lambda m: ({"b": 0, "l": 1, "s": 2, "f": 3}[m[0]], m[1]))]
    K = case["K"]
    words = case["words"]
    shifts = {_shift(w, len(ops)) for w in words}
    shifts |= {tuple(-x for x in s) for s in shifts}
    shifts.discard((0,) * len(ops))
    # reachable net shifts within K steps
    reach = {(0,) * len(ops)}
    frontier = set(reach)
    for _ in range(K):
        frontier = {tuple(a + b for a, b in zip(r, s)) for r in frontier for s in shifts}
        reach |= frontier
    reach.discard((0,) * len(ops))
    reach = {r for r in reach if all(abs(x) <= 1 or kinds[q] in ("b", "l") for q, x in enumerate(r))}
    degree = max(sum(1 for t, _ in w["ops"] if t != "num") for w in words)
    cutoff = (K + 1) * degree + 2
    # choose frequencies: first assignment (in the drawn order) for which every reachable shift has |dE| >= 1/4
    chosen = None
    cand = [FREQ[i] for i in case["freq_order"]]
    chi = Fraction(1, 16)
    inter = case["interaction"]
    for combo in itertools.permutations(cand, len(ops)):
        def energy(occ):
            e = sum(w * n for w, n in zip(combo, occ))
            if inter == "kerr":
                q = next((i for i, k in enumerate(kinds) if k == "b"), None)
                if q is not None:
                    e += chi * occ[q] * occ[q]
            elif inter == "cross" and len(ops) >= 2:
                e += chi * occ[0] * occ[1]
            return e

        ranges = [range(0, cutoff + 1) if k == "b" else range(-cutoff, cutoff + 1) if k == "l" else range(2) for k in kinds]
        ok = True
        for occ in itertools.product(*ranges):
            for r in reach:
                tgt = tuple(a + b for a, b in zip(occ, r))
                if any(t not in rg for t, rg in zip(tgt, ranges)):
                    continue
                if abs(energy(tgt) - energy(occ)) < Fraction(1, 4):
                    ok = False
                    break
            if not ok:
                break
        if ok:
            chosen = (combo, energy)
            break
    if chosen is None:
        return None
    combo, energy = chosen
    N = [NumberOperator(o) for o in ops]
    H0 = sum(sympy.Rational(w.numerator, w.denominator) * n for w, n in zip(combo, N))
    has_inter = False
    if inter == "kerr" and "b" in kinds:
        q = kinds.index("b")
        H0 = H0 + sympy.Rational(1, 16) * N[q] * N[q]
        has_inter = True
    elif inter == "cross" and len(ops) >= 2:
        H0 = H0 + sympy.Rational(1, 16) * N[0] * N[1]
        has_inter = True
    W = sum(_word_expr(w, ops, NumberOperator) for w in words)
    H1 = W + Dagger(W)
    # operator mask: sum of the pure ladder monomials of the chosen shifts and of their adjoints
    mask_expr, eliminated = None, None
    if (case.get("mask_words") and case["form"] in ("scalar", "matrix1")) or case["form"] == "matrix2mask":
        chosen_shifts = {_shift(words[q], len(ops)) for q in (case.get("mask_words") or [0]) if q < len(words)}
        chosen_shifts = {s_ for s_ in chosen_shifts if any(s_) and all(abs(x) <= 1 or kinds[q] in ("b", "l") for q, x in enumerate(s_))}
        if chosen_shifts:
            eliminated = chosen_shifts | {tuple(-x for x in s_) for s_ in chosen_shifts}
            mask_expr = sympy.Integer(0)
            for s_ in sorted(eliminated):
                mono = sympy.Integer(1)
                for op, x in zip(ops, s_):
                    if x > 0:
                        mono = mono * Dagger(op) ** x
                for op, x in zip(reversed(ops), reversed(s_)):
                    if x < 0:
                        mono = mono * op ** (-x)
                mask_expr = mask_expr + mono
    pm = case.get("power_mask")
    if pm and case["form"] in ("scalar", "matrix1") and kinds[0] in ("b", "l"):
        kk = sympy.symbols("k", integer=True, nonnegative=True)
        mask_expr = ops[0] ** (kk + pm) + Dagger(ops[0]) ** (kk + pm)
        bound = K * degree + 1
        eliminated = {tuple(sgn * q if j == 0 else 0 for j in range(len(ops))) for q in range(pm, bound + 1) for sgn in (1, -1)}
    return {"mask_expr": mask_expr, "eliminated": eliminated,"ops": ops, "kinds": kinds, "H0": H0, "H1": H1, "cutoff": cutoff, "degree": degree, "energy": energy, "interaction": has_inter, "reach": reach}


def check_case(case, enforce_all=False):
    import sympy

    from pymablock import block_diagonalize
    from pymablock.series import one, zero
    from vlib.fock import Space

    out = Outcome()
    K = case["K"]
    b = build(case)
    kinds = {k for k, _ in case["modes"]}
    out.labels += [f"K={K}"]
    if len(case["modes"]) >= 2:
        out.labels.append("modes>=2")
    for k, lab in (("f", "has-fermion"), ("b", "has-boson"), ("s", "has-spin"), ("l", "has-ladder")):
        if k in kinds:
            out.labels.append(lab)
    if b is None:
        out.labels.append("skipped:no-non-resonant-frequencies")
        return out
    if sympy.expand(b["H1"]) == 0:
        out.labels.append("skipped:perturbation-vanishes")
        return out
    if b["interaction"]:
        out.labels.append("interaction")
    space = Space(b["ops"], b["cutoff"])
    if space.D > 700:
        out.labels.append("skipped:space-too-large")
        return out
    form = case["form"]
    if K >= 3 and space.D * (1 if form in ("scalar", "matrix1") else 3 if form == "blocks3" else 2) > 420:
        # third order runs the reference in extended precision, where numpy has no BLAS: a 1400 x 1400 clongdouble
        # reference takes minutes per case.  Bounded by size (never by time): such cases are not judged.
        out.labels.append("skipped:too-large-for-the-extended-precision-reference")
        return out
    kinds_sorted = b["kinds"]
    H0, H1 = b["H0"], b["H1"]
    # ------------------------------------------------------------- library
    try:
        with warnings.catch_warnings():
            warnings.simplefilter("ignore")
            mk = {} if b["mask_expr"] is None else {"fully_diagonalize": b["mask_expr"] if form == "scalar" else sympy.Matrix([[b["mask_expr"]]])}
            if mk:
                out.labels.append("operator-mask")
                if case.get("power_mask") and kinds_sorted[0] in ("b", "l"):
                    out.labels.append("symbolic-power-mask")
            if form == "scalar":
                Ht, U, Ui = block_diagonalize([H0, H1], **mk)
                pick = lambda x: x  # noqa: E731
                idx = (0, 0)
            elif form == "matrix1":
                Ht, U, Ui = block_diagonalize([sympy.Matrix([[H0]]), sympy.Matrix([[H1]])], **mk)
                pick = lambda x: x if (x is zero or x is one) else x[0, 0]  # noqa: E731
                idx = (0, 0)
            elif form == "matrix2mask" and b["mask_expr"] is not None:
                # ONE block whose elements are 2x2 operator matrices; the mask only has off-diagonal entries
                delta = sympy.Rational(405, 32)
                h0 = sympy.Matrix([[H0, 0], [0, H0 + delta]])
                h1 = sympy.Matrix([[H1, H1], [H1, -H1]])
                mk = {"fully_diagonalize": sympy.Matrix([[0, b["mask_expr"]], [b["mask_expr"], 0]])}
                out.labels.append("operator-mask")
                out.labels.append("matrix-valued-mask")
                Ht, U, Ui = block_diagonalize([h0, h1], **mk)
                pick = None
                idx = (0, 0)
            else:
                if form not in ("blocks3", "blocks_fd", "blocks_cn") or space.D > 260:
                    form = "blocks"
                # copies of the mode system with shifted energies as blocks, coupled by the perturbation: every block
                # pair has its own energy offset, so the solver is called for several block pairs with different H_ii - H_jj
                offsets, C, fd = LAYOUTS[form]
                nb_ = len(offsets)
                h0 = sympy.diag(*[H0 + sympy.Rational(o.numerator, o.denominator) for o in offsets])
                gn = GN.get(form)
                if gn:
                    from pymablock.number_ordered_form import NumberOperator

                    N0 = NumberOperator(b["ops"][0])
                    cpl = sympy.I * sympy.Rational(gn.numerator, gn.denominator) * N0
                    h1 = sympy.Matrix(nb_, nb_, lambda i, j: C[i][j] * H1 + (cpl if i < j else -cpl if i > j else 0))
                else:
                    h1 = sympy.Matrix(nb_, nb_, lambda i, j: C[i][j] * H1)
                kw_ = {"fully_diagonalize": list(fd)} if fd else {}
                Ht, U, Ui = block_diagonalize([h0, h1], subspace_indices=list(range(nb_)), **kw_)
                pick = lambda x: x if (x is zero or x is one) else x[0, 0]  # noqa: E731
                idx = None
            out.labels.append(f"form={form}")
            lib = {}
            for n in range(K + 1):
                if form == "matrix2mask":
                    hv, uv = Ht[0, 0, n], U[0, 0, n]
                    lib[n] = {(i, j): ((hv if (hv is zero or hv is one) else hv[i, j]), (uv if uv is zero else (one if (uv is one and i == j) else zero if uv is one else uv[i, j]))) for i in range(2) for j in range(2)}
                    for (i, j), (hh, uu) in list(lib[n].items()):
                        if hh is one:
                            lib[n][(i, j)] = (one if i == j else zero, uu)
                elif form in LAYOUTS:
                    nb_ = len(LAYOUTS[form][0])
                    lib[n] = {(i, j): (pick(Ht[i, j, n]), pick(U[i, j, n])) for i in range(nb_) for j in range(nb_)}
                else:
                    lib[n] = {(0, 0): (pick(Ht[0, 0, n]), pick(U[0, 0, n]))}
    except Exception as exc:  # noqa: BLE001
        out.fail("exception", f"block_diagonalize / element evaluation raised {type(exc).__name__}: {str(exc)[:200]} for H_1 = {H1}")
        return out
    # ------------------------------------------------------------ reference on matrices
    from pymablock.series import one

    D = space.D
    sq = np.sqrt(space.metric)
    to_orth = lambda M: (sq[:, None] * M) / sq[None, :]  # noqa: E731
    from_orth = lambda M: M / sq[:, None] * sq[None, :]  # noqa: E731
    try:
        H0m = np.asarray(space.expr_matrix(H0), dtype=complex)
        H1m = to_orth(np.asarray(space.expr_matrix(H1), dtype=complex))
    except Exception as exc:  # noqa: BLE001
        raise AssertionError(f"matrix model failed: {exc}") from exc
    E0 = np.array([float(b["energy"](space.occ(s))) for s in space.states])
    if float(np.abs(np.diag(H0m).real - E0).max()) > 1e-9:
        raise AssertionError("matrix model: H_0 is not the diagonal of the constructed energies")
    if form in LAYOUTS or form == "matrix2mask":
        offsets, C, fd = LAYOUTS["blocks" if form == "matrix2mask" else form]
        nblk = len(offsets)
        E = np.concatenate([E0 + float(o) for o in offsets])
        T = np.block([[C[i][j] * H1m for j in range(nblk)] for i in range(nblk)])
        if GN.get(form):
            Nm = np.diag(np.array([float(space.occ(st_)[0]) for st_ in space.states])) * float(GN[form])
            for i in range(nblk):
                for j in range(nblk):
                    if i != j:
                        T[i * D : (i + 1) * D, j * D : (j + 1) * D] += (1j if i < j else -1j) * Nm
        S = np.zeros((nblk * D, nblk * D), dtype=bool)
        for q in range(nblk):
            # a fully diagonalised block keeps only its Fock-diagonal elements
            S[q * D : (q + 1) * D, q * D : (q + 1) * D] = np.eye(D, dtype=bool) if q in fd else True
        if form == "matrix2mask":
            # everything is kept except the masked shifts in the off-diagonal matrix entries
            occ = np.array([space.occ(st_) for st_ in space.states])
            elim = np.zeros((D, D), dtype=bool)
            for s_ in b["eliminated"]:
                diff = occ[:, None, :] - occ[None, :, :]
                elim |= np.all(diff == np.array(s_)[None, None, :], axis=2)
            S[:D, D:] = ~elim
            S[D:, :D] = ~elim
    else:
        E, T = E0, H1m
        S = np.eye(D, dtype=bool)
        nblk = 1
        if b["eliminated"] is not None:
            # selective elimination: everything is kept except the pairs of Fock states connected by a masked shift
            occ = np.array([space.occ(st_) for st_ in space.states])
            S = np.ones((D, D), dtype=bool)
            for s_ in b["eliminated"]:
                diff = occ[:, None, :] - occ[None, :, :]
                S &= ~np.all(diff == np.array(s_)[None, None, :], axis=2)
    dE = E[:, None] - E[None, :]
    S = S | (np.abs(dE) < 1e-12)  # exactly degenerate pairs are never coupled within reach: keep them
    try:
        # extended precision: the reference multiplies by H_0 explicitly, and with denominators down to 1/32 and
        # amplitudes ~ n^(3/2) plain doubles leave ~1e-8 of rounding noise at third order
        if K >= 3:
            refsolve.FLOAT_DTYPE[0] = np.clongdouble
            Uref, Href = refsolve.solve_hermitian(E.astype(np.longdouble), {(1,): T.astype(np.clongdouble)}, S, [(K,)], exact=False, selfcheck=False)
        else:
            Uref, Href = refsolve.solve_hermitian(E, {(1,): T}, S, [(K,)], exact=False, selfcheck=False)
        Uref = {n_: v.astype(complex) for n_, v in Uref.items()}
        Href = {n_: v.astype(complex) for n_, v in Href.items()}
    except Exception as exc:  # noqa: BLE001
        raise AssertionError(f"reference solver failed: {exc}") from exc
    finally:
        refsolve.FLOAT_DTYPE[0] = complex
    margin = K * b["degree"] + 1
    safe = space.safe(margin)
    if len(safe) == 0:
        raise AssertionError("no safe states: cutoff too small")
    boundary_cols = [c for c in safe if any((v == 0 or k in ("s", "f")) for v, k in zip(space.occ(space.states[c]), b["kinds"]))]
    nontrivial_hit = False
    mats = {}
    gmax = [1.0]
    emax = max(1.0, float(np.abs(E).max()))
    for n in range(K + 1):
        for (i, j), (ht, u) in lib[n].items():
            for name, val, ref in (("H_tilde", ht, Href[(n,)]), ("U", u, Uref[(n,)])):
                blk = from_orth(ref[i * D : (i + 1) * D, j * D : (j + 1) * D])
                if val is zero:
                    M = np.zeros((D, D), dtype=complex)
                elif val is one:
                    M = np.eye(D, dtype=complex)
                else:
                    try:
                        M = space.nof_matrix(val)
                    except Exception as exc:  # noqa: BLE001
                        out.fail("exception", f"evaluating {name}[{i},{j},{n}] = {str(val)[:120]} failed: {type(exc).__name__}: {str(exc)[:120]}")
                        return out
                mats[(name, i, j, n)] = M
                A, B = M[:, safe], blk[:, safe]
                scale = max(1.0, float(np.abs(B).max()))
                # rounding floor of the REFERENCE: it multiplies by H_0 explicitly, so an element that should vanish (an
                # eliminated block) is the difference of products as large as (largest element so far) x |H_0|
                gmax[0] = max(gmax[0], float(np.abs(Href[(n,)]).max()), float(np.abs(Uref[(n,)]).max()))
                tol = max(1e-8 * scale, 1e-13 * gmax[0] * emax)
                if not np.all(np.isfinite(A)) or float(np.abs(A - B).max()) > tol:
                    bad = np.argwhere(~(np.abs(A - B) <= tol))
                    r, c = bad[0]
                    out.fail(
                        f"matrix-element-{name}",
                        f"{name}[{i},{j},{n}]: <{space.occ(space.states[r])}|.|{space.occ(space.states[safe[c]])}> = {A[r, c]:.6g}, matrix block diagonalisation gives {B[r, c]:.6g}; H_0 = {H0}, H_1 = {H1}",
                    )
                    return out
                if n >= 2 and boundary_cols and float(np.abs(B[:, [list(safe).index(c) for c in boundary_cols]]).max()) > 1e-9:
                    nontrivial_hit = True
    # ------------------------------------------------------------ operator identities through the model
    if form not in LAYOUTS and form != "matrix2mask":
        Um = [mats[("U", 0, 0, n)] for n in range(K + 1)]
        Hm = [from_orth(np.diag(E0).astype(complex)), from_orth(H1m)]
        inner = space.safe((K + 1) * b["degree"] + 1)
        if len(inner) == 0:
            raise AssertionError("no inner states for the operator identities")
        for n in range(K + 1):
            acc = sum(space.adjoint(Um[m]) @ Um[n - m] for m in range(n + 1))
            target = np.eye(D) if n == 0 else np.zeros((D, D))
            if float(np.abs((acc - target)[:, inner]).max()) > 1e-8 * max(1.0, max(float(np.abs(u).max()) for u in Um) ** 2):
                out.fail("operator-unitarity", f"(U^dagger U)_{n} deviates from {'1' if n == 0 else '0'} in the operator algebra; H_1 = {H1}")
                return out
            acc = np.zeros((D, D), dtype=complex)
            for m in range(n + 1):
                for p in range(min(1, n - m) + 1):
                    q = n - m - p
                    acc = acc + space.adjoint(Um[m]) @ Hm[p] @ Um[q]
            ref = mats[("H_tilde", 0, 0, n)]
            if float(np.abs((acc - ref)[:, inner]).max()) > 1e-8 * max(1.0, float(np.abs(acc).max())):
                out.fail("operator-similarity", f"(U^dagger H U)_{n} differs from H_tilde_{n} in the operator algebra; H_1 = {H1}")
                return out
    rich = len(case["modes"]) >= 2 or b["interaction"]
    out.nontrivial = bool(rich and nontrivial_hit)
    out.info["states"] = D
    return out
