"""C02 - Hermitian: U unitary at every order, U_dagger its adjoint, H_tilde Hermitian."""
from __future__ import annotations

from vlib import bd_checks
from vlib.gen_matrix import problems
from vlib.runner import Outcome

ID = "C02"
LEVEL = "exploration"
LEVEL_TEXT = (
    "Generated search over the same problem space as C01: the Cauchy products U_inv.U and U.U_inv of the returned "
    "series are formed with an independent Cauchy algebra and must equal the identity at order zero and vanish at "
    "every other multi-order on all block pairs; every block (i,j,n) of the third series must be the conjugate "
    "transpose of block (j,i,n) of U (sentinels included) and H_tilde(i,j,n) that of H_tilde(j,i,n). Exact in exact "
    "mode, 1e-9 x magnitude in floating point. Holds on everything generated; no proof."
)
LEVEL_NOTE = (
    "Trusted: vlib/cauchy.py, vlib/exact.py, numpy. Bounds as C01 (<= 4 blocks, N <= 7, <= 3 parameters, total order <= 4; "
    "thorough N <= 10, order <= 5)."
)
TECHNIQUE = "property-based testing (Hypothesis) with an independent Cauchy-product oracle; float + exact arithmetic"
BUDGET = {"quick": 1200, "thorough": 40000}
SHRINK_SECONDS = {"quick": 40, "thorough": 200}
RULE = (
    "case = vlib.gen_matrix.problems(hermitian=True) (see C01). Non-trivial = (>= 3 blocks OR a fully_diagonalize / mask "
    "selection, i.e. W has off-diagonal parts and the two-block shortcut is off, OR K >= 3) AND U_n != 0 at some order >= 2."
)
ASSUMPTIONS = ["as C01"]
REQUIRED_CLASSES = {"all": ["blocks=3", "blocks=4", "params=3", "repr=sparse", "repr=sympy", "selection=mask", "selection=full"]}


FORMS = ("indices", "indices", "indices", "blocks", "blocks", "eigvecs", "symmatrix")


def strategy(tier):
    if tier == "thorough":
        return problems(tier, hermitian=True, max_N=10, max_block_size=4, forms=FORMS)
    from hypothesis import strategies as st

    # one case in eight is a small exact (sympy) two-block problem with a fully or selectively diagonalised block -
    # equal block sizes, zero blocks and symbolic masks meet there far more often than in the general stream
    small = problems(tier, hermitian=True, min_blocks=2, max_blocks=2, max_N=4, reprs=("sympy",), selections=("full", "mask"), forms=FORMS)
    general = problems(tier, hermitian=True, forms=FORMS)
    return st.one_of(*([general] * 7 + [small]))


def check_case(case, enforce_all=False):
    out = Outcome()
    out.labels = bd_checks.labels_for(case)
    ctx = bd_checks.Ctx(case, out)
    if not ctx.ok:
        return out
    # the three series are swept in an order that depends on the case (a pure function of it): what is asked first must
    # not matter for unitarity
    first = (sum(case["energy"]) + case["K"] + len(case["assign"])) % 3
    out.labels.append("swept-first=" + ("U", "H_tilde", "U_inv")[first])
    if first == 1 and ctx.all_orders("H_tilde") is None:
        return out
    if first == 2 and ctx.all_orders("U_inv") is None:
        return out
    U = ctx.all_orders("U")
    Ui = ctx.all_orders("U_inv") if U is not None else None
    if Ui is None:
        return out
    res = {"U": U, "Ui": Ui}
    if bd_checks.check_inverse(ctx, res):
        bd_checks.check_adjoint_pairing(ctx)
    rich = len(case["blocks"]) >= 3 or case["selection"]["kind"] != "none" or case["K"] >= 3
    out.nontrivial = bool(rich and any(sum(n) >= 2 and bd_checks.nonzero(U[n]) for n in ctx.orders))
    out.info["N"] = ctx.N
    return out
