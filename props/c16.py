"""C16 - Sylvester and Green's-function solvers return solutions of their equations."""
from __future__ import annotations

import warnings

import numpy as np
from hypothesis import strategies as st

from vlib.runner import Outcome

ID = "C16"
LEVEL = "exploration"
LEVEL_TEXT = (
    "Generated search over the built-in solvers, each checked by the residual of its own defining equation computed "
    "with dense numpy / exact sympy arithmetic: solve_sylvester_diagonal (dense, sparse and symbolic right-hand "
    "sides, degenerate and near-degenerate groups, complex energies, scalar-zero blocks; result must vanish - and be "
    "finite - where energies coincide within atol), solve_sylvester_direct (right- and left-implicit orientations, "
    "explicit-explicit, degenerate explicit levels, biorthogonal bases, real/complex mixtures, sparse or dense h_0; "
    "solution must lie in the range of the complement projector), solve_sylvester_KPM (residual within a multiple "
    "of the requested accuracy or a RuntimeWarning; with and without auxiliary vectors), direct_greens_function "
    "(all four dtypes, at and away from an eigenvalue, degenerate kernels), and the second-quantised solver as an "
    "operator identity through the Fock-space matrix model. No proof."
)
LEVEL_NOTE = (
    "Trusted: numpy/scipy dense linear algebra, sympy, vlib/fock.py for the operator mode. KPM is checked against "
    "50 x (bandwidth x requested atol) - a weak oracle by nature. Bounds: n <= 10, blocks <= 3 vectors, <= 3 modes."
)
TECHNIQUE = "property-based testing (Hypothesis), residual oracle per solver (dense / exact / Fock-matrix) + coverage-guided fuzzing stage (atheris/libFuzzer driving the same strategy and oracle)"
BUDGET = {"quick": 2400, "thorough": 60000}
FUZZ = {"quick": 3200, "thorough": 32000}  # executions of the coverage-guided stage (vlib/fuzz.py)
RULE = (
    "case = (mode in {diagonal, direct, greens, kpm, operator}, spectrum with degenerate groups / complex energies, "
    "right-hand side, value type, block index and orientation, dtype; operator mode: the solver object may first be asked for another block pair; direct mode: real-dtype H_0 with conjugate pairs). Non-trivial = degenerate or near-degenerate "
    "group, complex energies, an implicit orientation, sparse/symbolic right-hand side or reduced-precision dtype."
)
ASSUMPTIONS = [
    "explicit eigenvectors are exact (bi)orthonormal eigenvectors of h_0 up to rounding; implicit energies are >= 1 away from explicit ones",
    "KPM tolerance: residual <= 50 * a * atol * (1 + |Y|) with a the half bandwidth, or a convergence RuntimeWarning",
]
REQUIRED_CLASSES = {"all": ["mode=diagonal", "mode=direct", "mode=greens", "mode=kpm", "mode=operator", "operator-diagonal-index", "integer-energies", "dtype=int64", "rhs=sparse", "rhs=sympy", "orientation=left",
                            "orientation=right", "biorthogonal", "degenerate-explicit", "aux-vectors", "dtype=float32"]}


# ------------------------------------------------------------------------- strategies
@st.composite
def _diagonal_case(draw):
    nb = draw(st.integers(1, 3))
    sizes = [draw(st.integers(1, 4)) for _ in range(nb)]
    kind = draw(st.sampled_from(["dense", "dense", "sparse", "sympy"]))
    cplx_e = draw(st.booleans())
    i = draw(st.integers(0, nb - 1))
    j = draw(st.integers(0, nb - 1))
    eigs = []
    base = draw(st.integers(-6, 6))
    for b, s in enumerate(sizes):
        if "zero" not in eigs and draw(st.integers(0, 5)) == 0:
            eigs.append("zero")  # an all-zero H_0 block: scalar 0 (at most one: two would share the energy 0)
            base += 12
            continue
        vals = []
        for _ in range(s):
            e = [base + draw(st.integers(0, 3)), draw(st.integers(-2, 2)) if cplx_e else 0, draw(st.sampled_from([0, 0, 1])) if i == j else 0]
            if e[0] == 0 and e[1] == 0:
                e[0] = base + 5  # an exact zero would coincide with the energy of an all-zero block
            vals.append(e)
        eigs.append(vals)
        base += 12  # cross-block gaps: never close
    def ent():
        return [draw(st.integers(-4, 4)), draw(st.integers(-4, 4)) if draw(st.booleans()) else 0]
    Y = [[ent() if draw(st.integers(0, 4)) else [0, 0] for _ in range(sizes[j])] for _ in range(sizes[i])]
    return {"mode": "diagonal", "sizes": sizes, "eigs": eigs, "index": [i, j], "kind": kind, "Y": Y, "extra": draw(st.integers(0, 3)),
            "int_eigs": draw(st.integers(0, 2)) == 0}


@st.composite
def _h0_case(draw, mode):
    n = draw(st.integers(4, 9 if mode != "kpm" else 8))
    nh = mode == "direct" and draw(st.integers(0, 2)) == 0
    nb = draw(st.integers(1, 2))
    sizes = [draw(st.integers(1, 3)) for _ in range(nb)]
    while sum(sizes) >= n - 1:
        sizes[sizes.index(max(sizes))] -= 1
        sizes = [s for s in sizes if s] or [1]
    cplx = draw(st.booleans()) or nh
    # energies: explicit blocks first (with degeneracies), then the implicit rest, all >= 1 apart across groups
    E = []
    level = draw(st.integers(-3, 3))
    for s in sizes:
        for q in range(s):
            if q and draw(st.booleans()):
                pass  # degenerate with the previous explicit level
            else:
                level += draw(st.integers(1, 3))
            E.append([level, draw(st.integers(-2, 2)) if nh else 0])
    level += 2
    for _ in range(n - sum(sizes)):
        level += draw(st.integers(0, 2)) if mode != "kpm" else draw(st.integers(1, 2))
        E.append([level, draw(st.integers(-2, 2)) if nh else 0])
    def mat(r, c, cx=True):
        return [[[draw(st.integers(-3, 3)), draw(st.integers(-3, 3)) if (cplx and cx) else 0] for _ in range(c)] for _ in range(r)]
    case = {
        "mode": mode, "n": n, "sizes": sizes, "E": E, "nh": nh, "complex": cplx,
        "G": mat(n, n), "shear": [[draw(st.integers(0, n - 1)), draw(st.integers(0, n - 1)), draw(st.integers(-1, 1))] for _ in range(draw(st.integers(0, 4)))],
        "sparse_h0": draw(st.booleans()),
        "Y": mat(max(sizes + [3]), n), "Yc": draw(st.booleans()),
        "block": draw(st.integers(0, len(sizes) - 1)), "block2": draw(st.integers(0, len(sizes) - 1)),
        "orientation": draw(st.sampled_from(["left", "left", "right", "explicit"] if nh else ["right", "right", "explicit"])),
        "atol_opt": draw(st.sampled_from([None, 1e-12, 1e-8])),
        "tight": mode == "direct" and draw(st.integers(0, 4)) == 0,
        "reverse_explicit": draw(st.booleans()),
        # non-Hermitian H_0 stored as a REAL matrix although some of its eigenvalues come in complex-conjugate pairs,
        # one partner among the explicit states and the other in the implicit part (complex eigenvectors, real dtype)
        "real_pairs": bool(nh and draw(st.integers(0, 2)) == 0),
    }
    if mode == "greens":
        case["dtype"] = draw(st.sampled_from(["float64", "complex128", "float32", "complex64", "int64"]))
        case["at_eigenvalue"] = draw(st.booleans())
        case["shift"] = draw(st.sampled_from([0.5, -0.5, 0.25]))
        # degenerate kernel whose two vectors live on disjoint sites, (1,1,0,...)/sqrt2 and (0,0,1,1,1,1,0,...)/2: the
        # rows with the largest kernel weight (both on the first vector) do NOT fix the gauge of the kernel
        case["structured_kernel"] = draw(st.integers(0, 3)) == 0
    if mode == "kpm":
        case["kpm_atol"] = draw(st.sampled_from([1e-5, 1e-6, None]))  # None: library default (1e-5), no "atol" option
        case["n_aux"] = draw(st.integers(0, 2))
        case["max_moments"] = draw(st.sampled_from([None, None, 40]))
    return case


OP_MODE_SETS = [[["b", "a"]], [["b", "a"], ["b", "b"]], [["b", "a"], ["l", "l"]], [["b", "a"], ["s", "s"]], [["f", "f"], ["f", "g"]], [["b", "a"], ["f", "f"]], [["l", "l"], ["s", "s"]], [["s", "s"], ["f", "f"]]]


@st.composite
def _operator_case(draw):
    modes = draw(st.sampled_from(OP_MODE_SETS))
    nb = draw(st.integers(1, 2))
    sizes = [draw(st.integers(1, 2)) for _ in range(nb)]
    i = draw(st.integers(0, nb - 1))
    j = draw(st.integers(0, nb - 1))

    def word():
        L = draw(st.integers(1, 2))
        return {"ops": [[draw(st.sampled_from(["op", "dag", "op", "dag", "num"])), draw(st.integers(0, len(modes) - 1))] for _ in range(L)],
                "coef": [draw(st.sampled_from([1, 2, -1, 3])), draw(st.sampled_from([1, 2])), draw(st.sampled_from([0, 0, 1]))]}

    Y = [[[word() for _ in range(draw(st.integers(1, 2)))] for _ in range(sizes[j])] for _ in range(sizes[i])]
    return {"mode": "operator", "modes": modes, "sizes": sizes, "index": [i, j], "Y": Y, "freq_order": list(draw(st.permutations(range(7)))),
            "offsets": [[draw(st.integers(0, 6)) for _ in range(s)] for s in sizes], "kerr": draw(st.booleans()),
            # the same solver object is first asked for another block pair (its answer is not inspected)
            "warmup": draw(st.booleans())}


def strategy(tier):
    return st.one_of(_diagonal_case(), _diagonal_case(), _h0_case("direct"), _h0_case("direct"), _h0_case("greens"), _h0_case("kpm"), _operator_case())


# -------------------------------------------------------------------------- helpers
def _cm(M, cplx=True):
    a = np.array([[complex(e[0], e[1]) for e in row] for row in M])
    return a if (cplx and np.any(a.imag)) else a.real.copy()


def build_h0(case):
    """H_0 = R diag(E) R^{-1} with R unitary (Hermitian case: QR of an integer matrix) or a well-conditioned
    product of shears applied to it (non-Hermitian case). Returns (H0, R, Linv^dagger = L, E)."""
    n = case["n"]
    G = _cm(case["G"], case["complex"]) + 4 * np.eye(n)
    Q, _ = np.linalg.qr(G)
    R = Q
    if case["nh"]:
        for a, b, c in case["shear"]:
            if a != b and c:
                S = np.eye(n, dtype=complex)
                S[a, b] = 0.5 * c
                R = R @ S
    E = np.array([complex(e[0], e[1]) for e in case["E"]])
    real_pairs = False
    if case.get("real_pairs") and case["nh"] and not case.get("tight"):
        nexp = sum(case["sizes"])
        cidx = [k_ for k_ in range(nexp) if E[k_].imag != 0]
        partners = [E[k_].conjugate() for k_ in cidx]
        if cidx and len(cidx) <= n - nexp and not any(pt == E[k_] for pt in partners for k_ in range(nexp)):
            real_pairs = True
            E = E.copy()
            E[nexp:] = E[nexp:].real
            W = np.eye(n, dtype=complex)
            for t_, k_ in enumerate(cidx):
                q_ = nexp + t_
                E[q_] = partners[t_]
                W[:, k_] = 0
                W[:, q_] = 0
                W[k_, k_] = W[k_, q_] = 1 / np.sqrt(2)
                W[q_, k_], W[q_, q_] = 1j / np.sqrt(2), -1j / np.sqrt(2)
            Sr, _ = np.linalg.qr(G.real + 0.0)
            for a, b, c in case["shear"]:
                if a != b and c:
                    Sh = np.eye(n)
                    Sh[a, b] = 0.5 * c
                    Sr = Sr @ Sh
            R = Sr @ W
    if case.get("tight") and case["sizes"][0] >= 2:
        # two distinct explicit levels that are close *relative to their magnitude*: 128 and 128 + 2^-10
        # (difference 9.8e-4 < 1e-5 * 128 but far above every absolute tolerance); all numbers exactly representable
        E = E + (128 - E[0].real)
        E[1] = E[0] + 2.0**-10
    if not case["nh"]:
        E = E.real
    Rinv = np.linalg.inv(R)
    H0 = R @ np.diag(E) @ Rinv
    if real_pairs:
        if float(np.abs(H0.imag).max()) > 1e-12 * max(1.0, float(np.abs(H0).max())):
            raise AssertionError("real_pairs construction did not give a real H_0")
        H0 = H0.real.copy()
    if not case["nh"]:
        H0 = (H0 + H0.conj().T) / 2
        if not case["complex"]:
            H0 = H0.real
            R = R.real
            Rinv = Rinv.real
    L = Rinv.conj().T
    if case.get("reverse_explicit"):
        # the caller may list the eigenvectors of a block in any order: reverse each explicit block
        pos = 0
        R, L, E = R.copy(), L.copy(), E.copy()
        for s_ in case["sizes"]:
            R[:, pos : pos + s_] = R[:, pos : pos + s_][:, ::-1]
            L[:, pos : pos + s_] = L[:, pos : pos + s_][:, ::-1]
            E[pos : pos + s_] = E[pos : pos + s_][::-1]
            pos += s_
    return H0, R, L, E


def _blocks(case, R, L):
    out, pos = [], 0
    for s in case["sizes"]:
        out.append((R[:, pos : pos + s], L[:, pos : pos + s]))
        pos += s
    return out


# ------------------------------------------------------------------------ check_case
def check_case(case, enforce_all=False):
    out = Outcome()
    out.labels.append("mode=" + case["mode"])
    with warnings.catch_warnings(record=True) as wlist:
        warnings.simplefilter("always")
        {"diagonal": _check_diagonal, "direct": _check_direct, "greens": _check_greens, "kpm": _check_kpm, "operator": _check_operator}[case["mode"]](case, out, wlist)
    return out


def _check_diagonal(case, out, wlist):
    import sympy
    from scipy import sparse

    from pymablock.block_diagonalization import solve_sylvester_diagonal
    from pymablock.series import zero

    kind = case["kind"]
    i, j = case["index"]
    atol = 1e-12
    out.labels.append("rhs=" + kind)

    def num(e):
        return complex(e[0] + e[2] * 1e-14, e[1])  # e[2]: a difference far below atol

    eigs_lib, eigs_ref = [], []
    for b, vals in enumerate(case["eigs"]):
        if vals == "zero":
            eigs_lib.append(np.array(0))
            eigs_ref.append([0j] * case["sizes"][b])
            continue
        if kind == "sympy":
            ex = [sympy.Integer(e[0]) + sympy.I * e[1] for e in vals]
            eigs_lib.append(np.array(sympy.Matrix([ex]), dtype=object))
            eigs_ref.append([complex(e[0], e[1]) for e in vals])
        else:
            arr = np.array([num(e) for e in vals])
            if not np.any(arr.imag):
                arr = arr.real.copy()
                if case.get("int_eigs") and not any(e[2] for v in case["eigs"] if v != "zero" for e in v):
                    arr = arr.astype(np.int64)  # integer-dtype H_0 (e.g. np.diag([0, 1, 3]))
            eigs_lib.append(arr)
            eigs_ref.append([num(e) for e in vals])
    Y0 = np.array([[complex(e[0], e[1]) for e in row] for row in case["Y"]])
    try:
        solve = solve_sylvester_diagonal(tuple(eigs_lib), atol=atol)
    except Exception as exc:  # noqa: BLE001
        out.fail("exception", f"solve_sylvester_diagonal construction raised {type(exc).__name__}: {str(exc)[:200]}")
        return
    degenerate = False
    # the solver is a stateful closure: use one solver object for (i,j), the transposed pair (j,i) and (i,j) again
    calls = [((i, j), Y0), ((j, i), Y0.T.copy() * (1 + 1j if np.any(Y0.imag) else 1)), ((i, j), Y0)]
    for call_no, ((a_, b_), Yc) in enumerate(calls[: 1 + 2 * (case["extra"] > 0)]):
        if kind == "sympy":
            Y = sympy.Matrix(Yc.shape[0], Yc.shape[1], lambda r, c: sympy.Integer(int(Yc[r, c].real)) + sympy.I * int(Yc[r, c].imag))
        elif kind == "sparse":
            Y = sparse.csr_array(Yc if np.any(Yc.imag) else Yc.real)
        else:
            Y = Yc if np.any(Yc.imag) else Yc.real.copy()
        if kind == "sparse" and Y.count_nonzero() == 0:
            Y = zero
        what = f"call {call_no} index {(a_, b_)} {kind}"
        try:
            V = solve(Y, (a_, b_) + (1,))
        except Exception as exc:  # noqa: BLE001
            out.fail("exception", f"solve_sylvester_diagonal {what} raised {type(exc).__name__}: {str(exc)[:200]}")
            return
        Ei, Ej = eigs_ref[a_], eigs_ref[b_]
        if V is zero:
            expected_nonzero = any(Yc[r, c] and abs(Ei[r] - Ej[c]) > atol for r in range(len(Ei)) for c in range(len(Ej)))
            if expected_nonzero:
                out.fail("value", f"{what}: solver returned the zero sentinel for a non-vanishing right-hand side")
                return
            continue
        if kind == "sympy":
            if V.has(sympy.nan, sympy.zoo, sympy.oo):
                out.fail("nonfinite", f"{what}: symbolic solution contains nan/zoo: {V}")
                return
            Vd = np.array(V.tolist(), dtype=complex)
        elif sparse.issparse(V):
            Vd = V.toarray().astype(complex)
        else:
            Vd = np.asarray(V).astype(complex)
        if Vd.shape != Yc.shape:
            out.fail("shape", f"{what}: solution shape {Vd.shape}, right-hand side {Yc.shape}")
            return
        if not np.all(np.isfinite(Vd)):
            out.fail("nonfinite", f"{what}: solution contains NaN/inf")
            return
        for r in range(len(Ei)):
            for c in range(len(Ej)):
                d = Ei[r] - Ej[c]
                exact_deg = (kind == "sympy" and d == 0) or (kind != "sympy" and abs(d) <= atol)
                if exact_deg:
                    degenerate = True
                    if abs(Vd[r, c]) > 1e-12:
                        out.fail("degenerate-nonzero", f"{what}: V[{r},{c}] = {Vd[r, c]} although E_i - E_j = {d}")
                        return
                else:
                    res = Ei[r] * Vd[r, c] - Vd[r, c] * Ej[c] - Yc[r, c]
                    if abs(res) > 1e-10 * max(1.0, abs(Yc[r, c])):
                        out.fail("residual", f"{what}: E_i V - V E_j - Y = {res} at ({r},{c})")
                        return
    if any(v == "zero" for v in case["eigs"]):
        out.labels.append("scalar-zero-block")
    if any(getattr(a, "dtype", None) == np.int64 and a.shape for a in eigs_lib):
        out.labels.append("integer-energies")
    cplx_e = any(e[1] for v in case["eigs"] if v != "zero" for e in v)
    if cplx_e:
        out.labels.append("complex-energies")
    out.nontrivial = bool(degenerate or kind != "dense" or cplx_e)


def _check_direct(case, out, wlist):
    from scipy import sparse

    from pymablock.block_diagonalization import solve_sylvester_direct
    from pymablock.series import zero

    H0, R, L, E = build_h0(case)
    n = case["n"]
    blocks = _blocks(case, R, L)
    nexp = sum(case["sizes"])
    if case["nh"]:
        vecs = [(r.copy(), l.copy()) for r, l in blocks]
        out.labels.append("biorthogonal")
        if np.isrealobj(H0):
            out.labels.append("real-h0-complex-pairs")
    else:
        vecs = [r.copy() for r, _ in blocks]
    h0 = sparse.csr_array(H0) if case["sparse_h0"] else H0
    opts = {} if case["atol_opt"] is None else {"eigenvalue_atol": case["atol_opt"]}
    try:
        solve = solve_sylvester_direct(h0, vecs, nonhermitian=case["nh"], **opts)
    except Exception as exc:  # noqa: BLE001
        out.fail("exception", f"solve_sylvester_direct raised {type(exc).__name__}: {str(exc)[:200]}")
        return
    Rall = np.hstack([b[0] for b in blocks])
    Lall = np.hstack([b[1] for b in blocks])
    P = np.eye(n) - Rall @ Lall.conj().T
    orient = case["orientation"]
    if orient == "left" and not case["nh"]:
        orient = "right"
    b = case["block"]
    s = case["sizes"][b]
    pos = sum(case["sizes"][:b])
    Eb = E[pos : pos + s]
    Yfull = _cm(case["Y"], case["Yc"] or case["complex"])
    nimp = len(case["sizes"])
    degenerate = len(set(np.round(Eb, 9))) < len(Eb)
    if degenerate:
        out.labels.append("degenerate-explicit")
    out.labels.append("orientation=" + orient)
    try:
        if orient == "right":
            Y = Yfull[:s, :]
            V = solve(Y.copy(), (b, nimp, 1))
            res = np.diag(Eb) @ V - V @ H0 - Y @ P
            rng = V - V @ P
        elif orient == "left":
            Y = Yfull[:s, :].T.copy()
            V = solve(Y.copy(), (nimp, b, 1))
            res = H0 @ V - V @ np.diag(Eb) - P @ Y
            rng = V - P @ V
        else:
            b2 = case["block2"]
            s2 = case["sizes"][b2]
            pos2 = sum(case["sizes"][:b2])
            E2 = E[pos2 : pos2 + s2]
            Y = Yfull[:s, :s2]
            if b != b2 and np.any(np.isclose(Eb.reshape(-1, 1), E2.reshape(1, -1))):
                out.labels.append("skipped:explicit-blocks-share-energy")
                return
            V = solve(Y.copy(), (b, b2, 1))
            V = np.zeros(Y.shape) if V is zero else np.asarray(V)
            D = Eb.reshape(-1, 1) - E2.reshape(1, -1)
            tol = 1e-12 if case["atol_opt"] is None else case["atol_opt"]
            mask = np.abs(D) > tol
            res = np.where(mask, D * V - Y, V)
            rng = np.zeros(1)
    except Exception as exc:  # noqa: BLE001
        out.fail("exception", f"direct solver, orientation {orient}, block {b}: {type(exc).__name__}: {str(exc)[:200]}")
        return
    if not np.all(np.isfinite(V)):
        out.fail("nonfinite", f"direct solver returned NaN/inf ({orient})")
        return
    scale = max(1.0, float(np.abs(Y).max()), float(np.abs(V).max()) * max(1.0, float(np.abs(H0).max())))
    cond = max(1.0, float(np.linalg.norm(R, 2) * np.linalg.norm(np.linalg.inv(R), 2)))
    if float(np.abs(res).max()) > 1e-8 * scale * cond:
        out.fail("residual", f"direct solver ({orient}, block {b}, nh={case['nh']}): residual {np.abs(res).max():.3g} (scale {scale:.3g})")
        return
    if float(np.abs(rng).max()) > 1e-8 * scale * cond:
        out.fail("range", f"direct solver ({orient}): solution leaves the range of the complement projector by {np.abs(rng).max():.3g}")
        return
    out.nontrivial = bool(orient != "explicit" and (degenerate or case["nh"] or case["complex"]))


def _check_greens(case, out, wlist):
    from scipy import sparse

    from pymablock.linalg import direct_greens_function

    n = case["n"]
    if case["dtype"] == "int64":
        return _check_greens_int(case, out)
    H0, R, L, E = build_h0(dict(case, nh=False))
    dtype = np.dtype(case["dtype"])
    out.labels.append("dtype=" + case["dtype"])
    if dtype.kind == "f" and np.iscomplexobj(H0):
        H0, R = _real_version(case)
    H = H0.astype(dtype)
    rtol = 2e-3 if dtype.itemsize <= 8 and dtype.kind == "c" or dtype == np.float32 else 1e-9
    Ev = E.real
    if case.get("structured_kernel") and case["at_eigenvalue"] and n >= 6 and case["dtype"] in ("float64", "complex128"):
        v1 = np.zeros(n)
        v1[:2] = 1 / np.sqrt(2)
        v2 = np.zeros(n)
        v2[2:6] = 0.5
        G_ = _cm(case["G"], case["dtype"] == "complex128") + 4 * np.eye(n)
        Q_, _ = np.linalg.qr(np.column_stack([v1, v2, G_[:, : n - 2]]))
        Q_[:, 0], Q_[:, 1] = v1, v2  # (QR may flip signs; the first two columns are orthonormal already)
        Ev = np.array([1.0, 1.0] + [2.0 + q for q in range(n - 2)])
        H = ((Q_ * Ev) @ Q_.conj().T).astype(dtype)
        if dtype.kind == "f":
            H = H.real.astype(dtype)
        R = Q_
        out.labels.append("structured-degenerate-kernel")
    if case["at_eigenvalue"]:
        energy = Ev[0]
        group = [q for q in range(n) if abs(Ev[q] - energy) < 1e-9]
        K = R[:, group].astype(dtype)
        if len(group) > 1:
            out.labels.append("degenerate-kernel")
    else:
        energy = Ev[0] + case["shift"]
        while np.min(np.abs(Ev - energy)) < 0.2:
            energy += 0.3
        K = None
    v = _cm(case["Y"], True)[0, :n]
    v = v.astype(dtype) if dtype.kind == "c" else v.real.astype(dtype)
    try:
        gf = direct_greens_function(sparse.csr_array(H), energy, kernel_vectors=K)
        x = gf(v.copy())
    except Exception as exc:  # noqa: BLE001
        out.fail("exception", f"direct_greens_function({case['dtype']}, at_eigenvalue={case['at_eigenvalue']}) raised {type(exc).__name__}: {str(exc)[:200]}")
        return
    x = np.asarray(x)
    if not np.all(np.isfinite(x)):
        out.fail("nonfinite", "Green's function returned NaN/inf")
        return
    Hd = H.astype(complex)
    Pk = np.eye(n) if K is None else np.eye(n) - K.astype(complex) @ K.astype(complex).conj().T
    res = (energy * np.eye(n) - Hd) @ x - Pk @ v
    scale = max(1.0, float(np.abs(v).max()), float(np.abs(x).max()) * max(1.0, float(np.abs(Hd).max())))
    if float(np.abs(res).max()) > rtol * scale * 10:
        out.fail("residual", f"(E - H) x - P v = {np.abs(res).max():.3g} (dtype {case['dtype']}, scale {scale:.3g})")
        return
    if float(np.abs(Pk @ x - x).max()) > rtol * scale * 10:
        out.fail("range", f"P x != x by {np.abs(Pk @ x - x).max():.3g} (dtype {case['dtype']})")
        return
    out.nontrivial = bool(case["at_eigenvalue"] or dtype != np.float64)


def _check_greens_int(case, out):
    """Integer-dtype sparse H (e.g. a hopping matrix with integer on-site energies), non-integer energies."""
    from scipy import sparse

    from pymablock.linalg import direct_greens_function

    n = case["n"]
    out.labels.append("dtype=int64")
    G = np.array([[e[0] for e in row] for row in case["G"]], dtype=np.int64)
    H = G + G.T + np.diag(np.arange(n, dtype=np.int64) * 3)
    w, vecs = np.linalg.eigh(H.astype(float))
    if case["at_eigenvalue"]:
        k = min(range(n), key=lambda q: -min(abs(w[q] - w[r]) for r in range(n) if r != q))  # best separated level
        if min(abs(w[k] - w[r]) for r in range(n) if r != k) < 0.3:
            out.labels.append("skipped:levels-too-close")
            return
        energy, K = float(w[k]), vecs[:, [k]]
    else:
        energy = float(w[0]) + case["shift"] + 0.37
        while np.min(np.abs(w - energy)) < 0.2:
            energy += 0.31
        K = None
    v = np.array([complex(e[0], e[1]) for e in case["Y"][0][:n]]).real.copy()
    try:
        gf = direct_greens_function(sparse.csr_array(H), energy, kernel_vectors=K)
        x = np.asarray(gf(v.copy()))
    except Exception as exc:  # noqa: BLE001
        out.fail("exception", f"direct_greens_function(int64 H, E={energy:.4f}) raised {type(exc).__name__}: {str(exc)[:200]}")
        return
    Pk = np.eye(n) if K is None else np.eye(n) - K @ K.T
    res = (energy * np.eye(n) - H) @ x - Pk @ v
    scale = max(1.0, float(np.abs(v).max()), float(np.abs(x).max()) * float(np.abs(H).max()))
    if not np.all(np.isfinite(x)) or float(np.abs(res).max()) > 1e-8 * scale:
        out.fail("residual", f"(E - H) x - P v = {np.abs(res).max():.3g} for an integer-dtype H and E = {energy:.4f} (scale {scale:.3g})")
        return
    if float(np.abs(Pk @ x - x).max()) > 1e-8 * scale:
        out.fail("range", f"P x != x by {np.abs(Pk @ x - x).max():.3g} (integer-dtype H)")
        return
    out.nontrivial = True


def _real_version(case):
    c = dict(case, complex=False, nh=False)
    H0, R, L, E = build_h0(c)
    return H0, R


def _check_kpm(case, out, wlist):
    from scipy import sparse

    from pymablock.block_diagonalization import solve_sylvester_KPM

    c = dict(case, nh=False)
    H0, R, L, E = build_h0(c)
    n = case["n"]
    blocks = _blocks(c, R, L)
    nexp = sum(case["sizes"])
    vecs = [r.copy() for r, _ in blocks]
    opts = {"atol": case["kpm_atol"]} if case["kpm_atol"] is not None else {}
    kpm_atol = case["kpm_atol"] or 1e-5
    if case["kpm_atol"] is None:
        out.labels.append("kpm-default-options")
    n_aux = min(case["n_aux"], n - nexp - 2)
    if n_aux > 0:
        opts["auxiliary_vectors"] = R[:, nexp : nexp + n_aux].copy()
        out.labels.append("aux-vectors")
    # always bound the expansion: with the library default (1e6 moments) a KPM that has stopped converging - e.g. in a
    # mutated copy - would keep the check busy for hours before it emits its convergence warning
    opts["max_moments"] = case["max_moments"] or 40000
    h0 = sparse.csr_array(H0) if case["sparse_h0"] else H0
    b = case["block"]
    s = case["sizes"][b]
    pos = sum(case["sizes"][:b])
    Eb = E[pos : pos + s].real
    Y = _cm(case["Y"], case["complex"])[:s, :]
    Rall = np.hstack(vecs)
    P = np.eye(n) - Rall @ Rall.conj().T
    try:
        solve = solve_sylvester_KPM(h0, vecs, solver_options=opts)
        V = solve(Y.copy(), (b, len(vecs), 1))
    except Exception as exc:  # noqa: BLE001
        out.fail("exception", f"solve_sylvester_KPM raised {type(exc).__name__}: {str(exc)[:200]}")
        return
    warned = any(issubclass(w.category, RuntimeWarning) and "KPM" in str(w.message) for w in wlist)
    if warned:
        out.labels.append("kpm-convergence-warning")
        return
    if not np.all(np.isfinite(V)):
        out.fail("nonfinite", "KPM solver returned NaN/inf")
        return
    res = np.diag(Eb) @ V - V @ H0 - Y @ P
    a = (E.real.max() - E.real.min()) / 2 + 1
    tol = 50 * a * kpm_atol * (1 + float(np.abs(Y).max()))
    if float(np.abs(res).max()) > tol:
        out.fail("kpm-residual", f"KPM residual {np.abs(res).max():.3g} > {tol:.3g} (atol {case['kpm_atol']}, aux {n_aux}) and no convergence warning")
        return
    out.nontrivial = True


def _check_operator(case, out, wlist):
    """solve_sylvester_2nd_quant: H_ii X - X H_jj = Y as an operator identity, decided through the Fock matrix model."""
    import itertools
    from fractions import Fraction

    import sympy
    from sympy.physics.quantum import Dagger

    from props.c07 import FREQ, _shift, _word_expr
    from pymablock.number_ordered_form import NumberOperator
    from pymablock.second_quantization import solve_sylvester_2nd_quant
    from pymablock.series import zero
    from vlib.fock import Space, make_ops

    ops = make_ops(case["modes"])
    kinds = [m[0] for m in sorted(case["modes"], key=lambda m: ({"b": 0, "l": 1, "s": 2, "f": 3}[m[0]], m[1]))]
    i, j = case["index"]
    sizes = case["sizes"]
    diag_index = i == j
    if diag_index:
        out.labels.append("operator-diagonal-index")
    N = [NumberOperator(o) for o in ops]
    nm = len(ops)
    # right-hand side: operator matrix; for a diagonal block index it must be Hermitian (caller precondition)
    W = [[sum(_word_expr(w, ops, NumberOperator) for w in cell) for cell in row] for row in case["Y"]]
    shifts = set()
    rows, cols = sizes[i], sizes[j]
    Y = sympy.zeros(rows, cols)
    cell_shifts = {(r, c): set() for r in range(rows) for c in range(cols)}
    neg = lambda s_: tuple(-x for x in s_)  # noqa: E731
    for r in range(rows):
        for c in range(cols):
            if diag_index:
                if r > c:
                    continue
                cell = case["Y"][r][c]
                if r == c:
                    cell = [w for w in cell if any(_shift(w, nm))]  # H_ii - H_ii vanishes on number-conserving terms
                    e = sum((_word_expr(w, ops, NumberOperator) for w in cell), sympy.Integer(0))
                    Y[r, r] = e + Dagger(e)
                    for w in cell:
                        cell_shifts[(r, r)] |= {_shift(w, nm), neg(_shift(w, nm))}
                else:
                    Y[r, c] = W[r][c]
                    Y[c, r] = Dagger(W[r][c])
                    for w in cell:
                        cell_shifts[(r, c)].add(_shift(w, nm))
                        cell_shifts[(c, r)].add(neg(_shift(w, nm)))
                for w in cell:
                    shifts.add(_shift(w, nm))
            else:
                Y[r, c] = W[r][c]
                for w in case["Y"][r][c]:
                    shifts.add(_shift(w, nm))
                    cell_shifts[(r, c)].add(_shift(w, nm))
    shifts |= {tuple(-x for x in s_) for s_ in shifts}
    if all(sympy.expand(y) == 0 for y in Y):
        out.labels.append("skipped:right-hand-side-vanishes")
        return
    cutoff = 5
    space = Space(ops, cutoff)
    # energies: sum w N (+ Kerr) + distinct constant offsets per matrix entry; verify non-resonance by enumeration
    cand = [FREQ[q] for q in case["freq_order"]]
    chi = Fraction(1, 16) if case["kerr"] and "b" in kinds else Fraction(0)
    chosen = None
    for combo in itertools.permutations(cand, nm):
        def energy(occ, off):
            e = sum(w * n for w, n in zip(combo, occ)) + Fraction(off, 8) + Fraction(off * off, 64)
            if chi:
                q = kinds.index("b")
                e += chi * occ[q] * occ[q]
            return e

        ok = True
        ranges = [range(0, cutoff + 1) if k_ == "b" else range(-cutoff, cutoff + 1) if k_ == "l" else range(2) for k_ in kinds]
        offs_i = case["offsets"][i]
        offs_j = case["offsets"][j] if not diag_index else offs_i
        # distinct entries need distinct offsets when the shift is zero
        for occ in itertools.product(*ranges):
            for r in range(rows):
                for c in range(cols):
                    # only the shifts that occur in entry (r, c) of the right-hand side need a non-zero denominator
                    # there: two levels of a block may carry the SAME energy expression as long as the entry
                    # coupling them has no number-conserving part
                    for sh in cell_shifts[(r, c)]:
                        tgt = tuple(a + b for a, b in zip(occ, sh))
                        if any(t not in rg for t, rg in zip(tgt, ranges)):
                            continue
                        if abs(energy(tgt, offs_i[r] + 10 * i) - energy(occ, offs_j[c] + 10 * j)) < Fraction(1, 8):
                            ok = False
            if not ok:
                break
        if ok:
            chosen = combo
            break
    if chosen is None:
        out.labels.append("skipped:no-non-resonant-frequencies")
        return

    def h_expr(off, blk):
        e = sum(sympy.Rational(w.numerator, w.denominator) * n for w, n in zip(chosen, N))
        off = off + 10 * blk
        e = e + sympy.Rational(off, 8) + sympy.Rational(off * off, 64)
        if chi:
            q = kinds.index("b")
            e = e + sympy.Rational(1, 16) * N[q] * N[q]
        return e

    eigs = tuple([h_expr(off, b) for off in case["offsets"][b]] for b in range(len(sizes)))
    try:
        solve = solve_sylvester_2nd_quant(eigs)
        other = [(a, b_) for a in range(len(sizes)) for b_ in range(len(sizes)) if a != b_ and (a, b_) != (i, j)]
        if case.get("warmup") and other:
            # one solver object serves every block pair: a call for another pair (the same right-hand side entries
            # recycled into its shape; that pair may be resonant, so its answer is not inspected and may even fail)
            # must not influence the answer for (i, j)
            a, b_ = other[0]
            Yw = sympy.Matrix(sizes[a], sizes[b_], lambda r, c: W[r % rows][c % cols])
            out.labels.append("operator-solver-reused-for-another-pair")
            try:
                with warnings.catch_warnings():
                    warnings.simplefilter("ignore")
                    solve(Yw, (a, b_, 1))
            except Exception:  # noqa: BLE001
                solve = solve_sylvester_2nd_quant(eigs)
                out.labels.append("operator-warmup-raised")
        X = solve(Y, (i, j, 1))
    except Exception as exc:  # noqa: BLE001
        out.fail("exception", f"solve_sylvester_2nd_quant raised {type(exc).__name__}: {str(exc)[:200]} for Y = {Y}")
        return
    if X is zero:
        out.fail("value", f"second-quantised solver returned zero for Y = {Y}")
        return
    safe = space.safe(3)
    for r in range(rows):
        for c in range(cols):
            try:
                Xm = space.nof_matrix(X[r, c]) if X[r, c] != 0 else np.zeros((space.D, space.D), dtype=complex)
                Ha = np.asarray(space.expr_matrix(eigs[i][r]), dtype=complex)
                Hb = np.asarray(space.expr_matrix(eigs[j][c]), dtype=complex)
                Ym = np.asarray(space.expr_matrix(Y[r, c]), dtype=complex) if Y[r, c] != 0 else np.zeros((space.D, space.D), dtype=complex)
            except Exception as exc:  # noqa: BLE001
                out.fail("exception", f"evaluating the solution element ({r},{c}) = {str(X[r, c])[:100]} failed: {type(exc).__name__}: {str(exc)[:100]}")
                return
            # H_ii and H_jj are diagonal in the Fock basis, so the columns of the residual on safe input states only involve
            # the same columns of X.  The other columns are dropped first: a coefficient such as (5/4 - N_a/4)^-1 has a
            # pole at an occupation beyond the verified range, and nan x 0 would otherwise leak into every column.
            unsafe = np.setdiff1d(np.arange(space.D), np.asarray(safe))
            Xm = Xm.copy()
            Xm[:, unsafe] = 0
            res = (Ha @ Xm - Xm @ Hb - Ym)[:, safe]
            scale = max(1.0, float(np.abs(Ym).max()), float(np.abs(Xm[:, safe]).max()) * float(np.abs(Ha).max()))
            if not np.all(np.isfinite(res)) or float(np.abs(res).max()) > 1e-9 * scale:
                out.fail("operator-residual", f"H_ii X - X H_jj - Y != 0 for element ({r},{c}) of block {(i, j)}: residual {np.nanmax(np.abs(res)):.3g}; Y = {Y[r, c]}, X = {str(X[r, c])[:120]}")
                return
    out.nontrivial = True
