"""C05 - non-Hermitian mode: U_inv inverts U, U_inv H U = H_tilde, eliminated part zero, gauge, Hermitian limit."""
from __future__ import annotations

import numpy as np

from vlib import bd_checks
from vlib.gen_matrix import frame_effective, frame_input, frame_matrices, kept_mask, library_input, problems
from vlib.runner import Outcome

ID = "C05"
LEVEL = "exploration"
LEVEL_TEXT = (
    "Generated search over non-Hermitian problems (complex non-normal perturbations, complex unperturbed energies, "
    "asymmetric masks, 1-4 blocks, 1-3 parameters): U_inv.U = U.U_inv = 1, U_inv.H.U = H_tilde on kept and 0 on "
    "eliminated elements (formed from the returned U series and the input terms by an independent Cauchy algebra), "
    "gauge (U - U_inv)_S = 0, agreement with an independent non-Hermitian reference solver, and - on Hermitian "
    "input - equality with the hermitian=True outputs. Exact for sympy inputs. The class of known finding K1 (a kept "
    "off-diagonal element joining different unperturbed energies) is split off: there only the sub-assertions the "
    "defect does not touch are enforced. No proof."
)
LEVEL_NOTE = (
    "Trusted: vlib/cauchy.py, vlib/refsolve.solve_nonhermitian (self-checking), vlib/exact.py. Bounds as C01. "
    "Known finding K1 is replayed from known_findings.json and reported as KNOWN-FINDING."
)
TECHNIQUE = "property-based testing (Hypothesis): Cauchy-product oracle + independent reference solver + Hermitian-mode differential"
BUDGET = {"quick": 1200, "thorough": 40000}
SHRINK_SECONDS = {"quick": 40, "thorough": 200}
RULE = (
    "case = vlib.gen_matrix.problems(hermitian=False, complex energies, asymmetric masks, safe_bias) plus a flag "
    "'hermitian_input' (terms Hermitian, energies real: outputs must equal Hermitian mode); a third of the numeric "
    "problems are handed over in an oblique lab frame (H_k = R T_k R^-1, R a product of shears, blocks designated by the "
    "biorthogonal pairs (R_i, L_i = R^-dagger_i); half of those with Hermitian lab-frame perturbations). Non-trivial = perturbation "
    "non-normal or hermitian_input, eliminated set non-empty and coupled, K >= 2, U_n != 0 at some order >= 2. Cases in "
    "the K1 class are counted in excluded_by_finding and are never counted as non-trivial."
)
ASSUMPTIONS = [
    "H_0 diagonal in the supplied basis",
    "K1 class predicate: some kept off-diagonal pair (i != j, S_ij) has E_i != E_j; in that class only inverse "
    "identities, gauge, all assertions at total order <= 1 and elimination at order 2 are enforced",
]
REQUIRED_CLASSES = {"all": ["class=safe", "class=K1", "blocks=3", "params=2", "repr=sympy", "repr=sparse", "selection=mask", "hermitian-input", "complex-energies", "frame=oblique-pairs", "frame=oblique-pairs+lab-hermitian", "asymmetric-mask"]}


def strategy(tier):
    from hypothesis import strategies as st

    kw = dict(hermitian=False, complex_energy=True, safe_bias=True, forms=("indices", "indices", "indices", "blocks", "blocks", "eigvecs"))
    if tier == "thorough":
        kw.update(max_N=10, max_block_size=4)
    base = problems(tier, **kw)

    @st.composite
    def framed(draw):
        # one third of the numeric problems are posed in an oblique lab frame: H_k = R T_k R^-1 with explicit
        # biorthogonal (R_i, L_i) pairs instead of subspace_indices; half of those with Hermitian lab-frame perturbations
        p = dict(draw(base), hermitian_input=False)
        N = len(p["assign"])
        if p["repr"] != "sympy" and N >= 2 and draw(st.integers(0, 2)) == 0:
            shear = [[draw(st.integers(0, N - 1)), draw(st.integers(0, N - 1)), draw(st.sampled_from([1, -1, 2]))] for _ in range(draw(st.integers(1, 3)))]
            p["frame"] = {"shear": shear, "lab_hermitian": draw(st.booleans())}
        return p

    nh = framed()
    herm = problems(tier, hermitian=True, safe_bias=True, **({"max_N": 10, "max_block_size": 4} if tier == "thorough" else {})).map(
        lambda p: dict(p, hermitian=False, hermitian_input=True)
    )
    # the property names asymmetric masks explicitly: one stream of problems always has a (general, usually asymmetric)
    # mask dictionary; such problems are in the K1 class, where the enforced sub-assertions are the order <= 1 ones,
    # elimination at order 2, the inverse identities and the gauge
    kw_m = dict(kw, safe_bias=False, selections=("mask",))
    base_m = problems(tier, **kw_m)
    masked = base_m.map(lambda p: dict(p, hermitian_input=False))
    return st.one_of(nh, nh, masked, herm)


def in_k1_class(case):
    S = kept_mask(case)
    E = list(zip(case["energy"], case["eimag"]))
    N = len(E)
    return any(S[i, j] and i != j and E[i] != E[j] for i in range(N) for j in range(N))


def check_case(case, enforce_all=False):
    out = Outcome()
    frame = case.get("frame")
    ham = kwargs = None
    if frame:
        R, _ = frame_matrices(frame, len(case["assign"]))
        if np.array_equal(R, np.eye(len(R))):
            frame = None
    if frame:
        case = frame_effective(case, frame)
        ham, kwargs = frame_input(case, frame)
    out.labels = bd_checks.labels_for(case)
    out.labels.append("frame=" + ("indices" if not frame else "oblique-pairs" + ("+lab-hermitian" if frame.get("lab_hermitian") else "")))
    unsafe = in_k1_class(case)
    out.labels.append("class=K1" if unsafe else "class=safe")
    if case.get("hermitian_input"):
        out.labels.append("hermitian-input")
    if any(case["eimag"]):
        out.labels.append("complex-energies")
    if unsafe and not enforce_all:
        out.excluded.append("K1")
    ctx = bd_checks.Ctx(case, out, ham, kwargs)
    if not ctx.ok:
        return out
    res = {}
    for name, key in (("U", "U"), ("U_inv", "Ui"), ("H_tilde", "Ht")):
        res[key] = ctx.all_orders(name)
        if res[key] is None:
            return out
    for n in ctx.orders:
        for key in res:
            if not ctx.exact and not np.all(np.isfinite(res[key][n])):
                out.fail("nonfinite", f"{key}{list(n)} contains NaN/inf")
                return out
    if not bd_checks.check_inverse(ctx, res):
        return out
    if not bd_checks.check_gauge(ctx, res):
        return out
    limited = unsafe and not enforce_all
    if limited:
        # K1 class: only what the defect does not touch
        orders_full = [n for n in ctx.orders if sum(n) <= 1]
        full_ctx_orders = ctx.orders
        ctx.orders = orders_full
        ok = bd_checks.check_similarity(ctx) is not None
        if ok:
            ref = bd_checks.reference(ctx, hermitian=False)
            bd_checks.check_reference(ctx, res, ref)
        ctx.orders = full_ctx_orders
        if ok and not out.failures:
            for n in [n for n in ctx.orders if sum(n) == 2]:
                T, scale = ctx.product([res["Ui"], ctx.H, res["U"]], n)
                good, dev = ctx.is_zero(T[ctx.R], scale)
                if not good:
                    out.fail("elimination", f"(U_inv H U){list(n)} is {dev:.3g} on an eliminated element (K1 class, order 2)")
                    break
        return out
    sim = bd_checks.check_similarity(ctx)
    if sim is None:
        return out
    ref = bd_checks.reference(ctx, hermitian=False)
    if not bd_checks.check_reference(ctx, res, ref):
        return out
    if case.get("hermitian_input"):
        ham, kwargs = library_input(dict(case, hermitian=True))
        out2 = Outcome()
        ctx2 = bd_checks.Ctx(dict(case, hermitian=True), out2, ham, kwargs)
        if not ctx2.ok:
            out.fail("hermitian-mode-exception", out2.failures[0].message)
            return out
        for name, key in (("U", "U"), ("U_inv", "Ui"), ("H_tilde", "Ht")):
            other = ctx2.all_orders(name)
            if other is None:
                out.fail("hermitian-mode-exception", out2.failures[0].message)
                return out
            for n in ctx.orders:
                _, scale = ctx.product([ref["Ui"], ctx.H, ref["U"]], n)
                good, dev = ctx.close(res[key][n], other[n], max(scale, bd_checks.maxabs(other[n])))
                if not good:
                    out.fail("hermitian-limit", f"{name}{list(n)} differs between hermitian=False and hermitian=True by {dev:.3g}")
                    return out
    nonnormal = case.get("hermitian_input") or any(
        bd_checks.nonzero(t - t.conj().T) for t in ctx.terms.values()
    )
    out.nontrivial = bool(sim["nontrivial"] and nonnormal and ctx.K >= 2)
    out.info["N"] = ctx.N
    return out
