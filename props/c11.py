"""C11 - an exception during evaluation leaves the computation consistent and reusable (fault enumeration)."""
from __future__ import annotations

import warnings

import numpy as np
from hypothesis import strategies as st

from vlib import bd_checks
from vlib.cauchy import orders_upto
from vlib.gen_matrix import energies, problems, states_of
from vlib.instrument import FaultArray, Tick, implicit_kwargs, logged_hamiltonian, wrap_solver
from vlib.runner import Outcome

ID = "C11"
LEVEL = "fault_enumeration"
LEVEL_TEXT = (
    "Fault enumeration: for each generated small problem and target request, a clean instrumented run counts the "
    "callback invocations T (evaluations of the user-defined Hamiltonian series, calls of the Sylvester solver, matrix "
    "multiplications of elements through an ndarray subclass). Then *every* invocation index k = 1..T is used as "
    "injection point for each exception type (a plain Exception subclass, RuntimeError, NotImplementedError, "
    "KeyboardInterrupt) - exhaustive per problem; the thorough tier adds a second fault during the retry. Each time: "
    "the exception reaching the caller must be of the injected type, and afterwards a drawn schedule over all three "
    "outputs on the *same* computation must return exactly the clean table, with no 'Infinite recursion' RuntimeError. "
    "The problems and schedules are generated; the injection points per problem are enumerated completely."
)
LEVEL_NOTE = (
    "Trusted: the instrumentation (vlib/instrument.py: logging BlockSeries, solver wrapper, FaultArray). Faults in the "
    "solver need a user-supplied solver, which the library only allows without fully_diagonalize; Hamiltonian-eval and "
    "multiplication faults are also injected with selections. Bounds: N <= 6, <= 3 blocks, total order <= 3, T <= ~300."
)
TECHNIQUE = "exhaustive fault injection at every callback invocation of generated problems (Hypothesis generates problems and schedules)"
BUDGET = {"quick": 480, "thorough": 12000}
SHRINK_SECONDS = {"quick": 30, "thorough": 120}
WORKERS = 16
RULE = (
    "case = (small problem, callback kinds instrumented, target request (single element or slice), follow-up schedule; explicit or implicit mode); for the case every "
    "injection point x exception type is enumerated (counted in coverage.info.max_injections; evaluations = cases). "
    "Non-trivial = the clean run has >= 20 callback invocations including a solver call or a multiplication and the "
    "target has total order >= 2. Distinct = distinct case hash."
)
ASSUMPTIONS = [
    "an injected exception is raised by the callback itself (user code); the library must only clean up its own bookkeeping",
    "clean values are compared exactly (same computation path), tolerance 1e-12 x magnitude",
]
COVERAGE_EXTRA = {
    "exhaustive": False,
    "exhaustive_per_case": True,
    "explanation": "the problem / target / schedule space is sampled by Hypothesis; for every sampled case ALL callback "
    "invocation indices of the clean run x 4 exception types are injected (info.sum_injections = total injections, "
    "info.max_T = largest number of injection points of one case)",
}
REQUIRED_CLASSES = {"all": ["kinds=eval+solve+matmul", "kinds=eval+matmul", "selection=mask", "mode=nonhermitian", "target=slice-blocks", "target=slice-orders"]}

EXC = ["custom", "runtime", "notimplemented", "keyboard"]


class InjectedError(Exception):
    pass


def _exc_factory(name):
    return {"custom": InjectedError, "runtime": RuntimeError, "notimplemented": NotImplementedError, "keyboard": KeyboardInterrupt}[name]


def strategy(tier):
    herm = problems(tier, hermitian=True, min_blocks=2, max_blocks=3, max_N=6, max_params=2, reprs=("dense",), max_K=3)
    nh = problems(tier, hermitian=False, complex_energy=True, min_blocks=2, max_blocks=3, max_N=5, max_params=2, reprs=("dense",), max_K=3, safe_bias=True)

    @st.composite
    def cases(draw):
        p = draw(st.one_of(herm, herm, nh))
        nb, k, K = len(p["blocks"]), p["n_params"], p["K"]
        orders = [o for o in orders_upto(k, K) if sum(o) >= 1]
        high = [o for o in orders if sum(o) >= 2]
        with_solver = p["selection"]["kind"] == "none" and nb >= 2 and not draw(st.booleans())
        target = [draw(st.sampled_from(["H_tilde", "U", "U_inv"])), draw(st.integers(0, nb - 1)), draw(st.integers(0, nb - 1))] + list(draw(st.sampled_from(high)))
        sched = []
        for _ in range(draw(st.integers(2, 5))):
            sched.append([draw(st.sampled_from(["H_tilde", "U", "U_inv"])), draw(st.integers(0, nb - 1)), draw(st.integers(0, nb - 1))] + list(draw(st.sampled_from(orders))))
        return {"problem": p, "with_solver": with_solver, "target": target, "schedule": sched, "form": draw(st.sampled_from(["blocked", "scalar", "blocked", "scalar", "scalar_implicit"])),
                "target_slice": draw(st.sampled_from([None, None, "blocks", "orders"])),
                "double": draw(st.integers(0, 10**6)), "double_n": 0 if tier == "quick" else 2}

    return cases()


def _norm(v):
    from pymablock.series import one, zero

    if v is zero:
        return "zero"
    if v is one:
        return "one"
    from scipy.sparse.linalg import LinearOperator

    if isinstance(v, LinearOperator):
        return np.asarray(v @ np.eye(v.shape[1])).astype(complex)
    if hasattr(v, "toarray"):
        v = v.toarray()
    return np.asarray(v).astype(complex)


def _same(a, b):
    if isinstance(a, str) or isinstance(b, str):
        if isinstance(a, str) and isinstance(b, str):
            return a == b
        arr, s = (a, b) if isinstance(b, str) else (b, a)
        return s == "zero" and not np.any(arr)
    return a.shape == b.shape and bool(np.all(np.isfinite(a))) and float(np.abs(a - b).max() if a.size else 0.0) <= 1e-12 * max(1.0, float(np.abs(b).max() if b.size else 0.0))


def _in_chain(exc, cls):
    """The injected exception reached the caller: either as itself or as the cause of the library's
    'Failed to evaluate ...' RuntimeError wrapper."""
    seen = 0
    while exc is not None and seen < 50:
        if isinstance(exc, cls):
            return True
        exc = exc.__cause__ or exc.__context__
        seen += 1
    return False


def _build(p, form, ticker, with_solver):
    """Instrumented computation: returns dict of output series."""
    from pymablock import block_diagonalize
    from pymablock.block_diagonalization import solve_sylvester_diagonal

    FaultArray.ticker = ticker
    H, kwargs = logged_hamiltonian(p, form="scalar" if form == "scalar_implicit" else form, ticker=ticker, array_cls=FaultArray)
    if form == "scalar_implicit":
        # implicit mode: eigenvectors of all blocks but the last, default direct solver; elements of the last block are
        # LinearOperators built from a wrapped twin of every series
        kwargs = implicit_kwargs(p, kwargs)
        with_solver = False
    if with_solver:
        E = np.array(energies(p))
        eigs = tuple(E[s] for s in states_of(p))
        kwargs["solve_sylvester"] = wrap_solver(solve_sylvester_diagonal(eigs), ticker)
    with warnings.catch_warnings():
        warnings.simplefilter("ignore")
        return dict(zip(("H_tilde", "U", "U_inv"), block_diagonalize(H, **kwargs)))


def _get(outs, req, how=None):
    with warnings.catch_warnings():
        warnings.simplefilter("ignore")
        if how == "blocks":  # all blocks of the series at this order in ONE request
            return outs[req[0]][(slice(None), slice(None)) + tuple(req[3:])]
        if how == "orders":  # all orders 0..n of the first parameter in ONE request
            return outs[req[0]][(req[1], req[2], slice(0, req[3] + 1)) + tuple(req[4:])]
        return outs[req[0]][(req[1], req[2]) + tuple(req[3:])]


def check_case(case, enforce_all=False):
    out = Outcome()
    p = case["problem"]
    with_solver = case["with_solver"] and case["form"] != "scalar_implicit"
    kinds = ("eval", "solve", "matmul") if with_solver else ("eval", "matmul")
    out.labels = bd_checks.labels_for(p) + ["kinds=" + "+".join(kinds), "mode=hermitian" if p["hermitian"] else "mode=nonhermitian", f"form={case['form']}"]
    target, sched = case["target"], case["schedule"]
    try:
        # clean table
        clean_tick = Tick(kinds=kinds)
        clean = _build(p, case["form"], clean_tick, with_solver)
        at_definition = clean_tick.count
        how = case.get("target_slice")
        if how:
            _get(clean, target, how)
            out.labels.append("target=slice-" + how)
        ref_target = _norm(_get(clean, target))
        T = clean_tick.count
        table = [_norm(_get(clean, r)) for r in sched]
    except Exception as exc:  # noqa: BLE001
        out.fail("exception", f"clean instrumented run raised {type(exc).__name__}: {str(exc)[:200]}")
        FaultArray.ticker = None
        return out
    n_inj = 0
    kinds_seen = {e[0] for e in clean_tick.events}
    try:
        for k in range(1, T + 1):
            for exc_name in EXC:
                n_inj += 1
                factory = _exc_factory(exc_name)
                tick = Tick(fault_at=k, exc_factory=factory, kinds=kinds)
                what = f"fault #{k}/{T} ({clean_tick.events[k - 1][0]}) type {exc_name}"
                outs = None
                try:
                    outs = _build(p, case["form"], tick, with_solver)
                    if how:
                        _get(outs, target, how)
                    # exactly what the clean run did: elements of the implicit block are lazy LinearOperators whose
                    # products are only carried out when they are applied, so the target is made dense here as well
                    _norm(_get(outs, target))
                    raised = None
                except BaseException as exc:  # noqa: BLE001
                    raised = exc
                if not tick.fired:
                    out.fail("nondeterministic-count", f"{what}: the faulty run made fewer callback invocations than the clean run")
                    return out
                if raised is None:
                    out.fail("exception-swallowed", f"{what}: the injected exception did not reach the caller")
                    return out
                if not _in_chain(raised, factory):
                    out.fail("exception-type-changed", f"{what}: caller received {type(raised).__name__}: {str(raised)[:120]}")
                    return out
                if outs is None:
                    # the fault hit during block_diagonalize(...) itself: the input series must stay usable
                    if k > at_definition:
                        out.fail("nondeterministic-count", f"{what}: definition consumed more callbacks than in the clean run")
                        return out
                    continue
                tick.fault_at = None
                if case.get("double_n"):
                    # second fault during the retry (thorough tier): a few injection points derived from the case
                    for q in range(case["double_n"]):
                        k2 = tick.count + 1 + (case["double"] + 7 * q + k) % 9
                        tick.fault_at, tick.fired = k2, False
                        try:
                            _get(outs, target)
                            raised2 = None
                        except BaseException as exc:  # noqa: BLE001
                            raised2 = exc
                        tick.fault_at = None
                        if tick.fired and (raised2 is None or not _in_chain(raised2, factory)):
                            out.fail("exception-swallowed", f"{what}: second fault during the retry did not reach the caller ({type(raised2).__name__})")
                            return out
                        if not tick.fired and raised2 is not None:
                            out.fail("retry-raised", f"{what}: retry raised {type(raised2).__name__}: {str(raised2)[:160]}")
                            return out
                # retry on the same computation: target and a schedule over all outputs
                for r, expect in [(target, ref_target)] + list(zip(sched, table)):
                    try:
                        got = _norm(_get(outs, r))
                    except BaseException as exc:  # noqa: BLE001
                        sig = "pending-leaked" if "recursion" in str(exc).lower() or "recursion" in str(getattr(exc, "__cause__", "")).lower() else "retry-raised"
                        out.fail(sig, f"{what}: afterwards {r} raised {type(exc).__name__}: {str(exc)[:160]}")
                        return out
                    if not _same(got, expect):
                        out.fail("stale-value", f"{what}: afterwards {r} differs from the undisturbed computation")
                        return out
    finally:
        FaultArray.ticker = None
    out.info["max_injections"] = n_inj
    out.info["sum_injections"] = n_inj
    out.info["max_T"] = T
    out.nontrivial = bool(T >= 20 and ({"solve", "matmul"} & kinds_seen) and sum(target[3:]) >= 2)
    return out
