"""C09 - compiling a series mini-language algorithm preserves its meaning."""
from __future__ import annotations

import itertools
import warnings

import numpy as np
from hypothesis import strategies as st

from vlib import dsl
from vlib.runner import Outcome

ID = "C09"
LEVEL = "exploration"
LEVEL_TEXT = (
    "Generated search over *programs*: well-founded algorithms in the documented mini-language (2-6 series with start "
    "values 0 / 1 / input, hermitian / antihermitian markers, unconditional / diagonal / offdiagonal clauses, sums, "
    "differences, integer division, adjoints, scope functions on series and on expressions - also nested under "
    "conditions -, flag-guarded terms, declared 2- and 3-factor Cauchy products incl. genuine recurrences through a "
    "product and hermitian products of mutual adjoints, optional diag/offdiag selection wrappers) are rendered to "
    "source, compiled with series_computation, and every element of *every* series (outputs and deleted "
    "intermediates) requested in a drawn order is compared with a reference interpreter that evaluates the structured "
    "program directly. Second domain: the two shipped algorithms under flag variants that must not change values "
    "(two_block_optimized, commuting_blocks, deletion disabled). No proof."
)
LEVEL_NOTE = (
    "Trusted: vlib/dsl.py reference interpreter (memoised recursion, brute-force products, never parses Python) and "
    "renderer. Well-foundedness is guaranteed by a rank discipline of the generator. Values are small Gaussian "
    "integers and divisions are by powers of two, so comparisons are exact up to 1e-12. Bounds: block grids 2x2 / 3x3, "
    "blocks <= 2x2, 1-2 infinite dimensions, orders <= 3."
)
TECHNIQUE = "property-based testing over generated programs (Hypothesis) against a reference interpreter; flag-variant differential for the shipped algorithms + coverage-guided fuzzing stage (atheris/libFuzzer driving the same strategy and oracle)"
BUDGET = {"quick": 4000, "thorough": 100000}
FUZZ = {"quick": 3200, "thorough": 32000}  # executions of the coverage-guided stage (vlib/fuzz.py)
SHRINK_SECONDS = {"quick": 30, "thorough": 150}
RULE = (
    "case = (program, block grid, block sizes, number of infinite dimensions, input value salt, scope functions and "
    "flags, request schedule over all series; every scheduled element is also read from the linear-operator twin series) or (shipped algorithm, problem, flag variant). Non-trivial (programs) = "
    "the program has a product, a marker, a term the compiler deletes after its single use, and the schedule asks a "
    "non-output series after an output; (shipped) = >= 2 blocks and order >= 2 values compared."
)
ASSUMPTIONS = [
    "a product is declared hermitian only when its two factors are mutual adjoints (the situation in which the shortcut is valid, cf. known finding K2)",
    "`start = 1` series are used as product factors / outputs only (the identity sentinel does not support addition)",
    "the docstring spelling `start = \"A\"` is not exercised: only the working `\"<input>_0\"` form used by the shipped algorithms",
]
REQUIRED_CLASSES = {"all": ["domain=program", "domain=shipped", "has-product", "has-marker", "has-recurrence", "has-scope-call",
                            "nested-call-under-condition", "has-hermitian-product", "has-selection-wrappers", "n_inf=2", "deleted-term", "inputs=data", "inputs=evaluated", "inputs=data_all", "explicit-lower-clause"]}


# --------------------------------------------------------------------------- program strategy
@st.composite
def _expr(draw, refs, prods, depth, funcs=True):
    """refs: names usable directly; prods: product names usable."""
    leaves = [["ref", r, False] for r in refs] + [["ref", r, True] for r in refs]
    leaves += [["ref", p, False] for p in prods] + [["ref", p, True] for p in prods]
    if depth == 0 or draw(st.integers(0, 2)) == 0:
        return draw(st.sampled_from(leaves))
    kinds = ["add", "sub", "neg", "div", "add"]
    if funcs:
        kinds += ["call", "callS", "ifz"]
    t = draw(st.sampled_from(kinds))
    if t in ("add", "sub"):
        return [t, draw(_expr(refs, prods, depth - 1, funcs)), draw(_expr(refs, prods, depth - 1, funcs))]
    if t == "neg":
        return ["neg", draw(_expr(refs, prods, depth - 1, funcs))]
    if t == "div":
        return ["div", draw(_expr(refs, prods, depth - 1, funcs)), draw(st.sampled_from([2, -2, 4]))]
    if t == "call":
        sub = draw(_expr(refs, prods, depth - 1, funcs))
        if sub[0] == "ref" and not sub[2]:
            # f("S") with a bare string literal is the *series* form f(series, index); keep this an expression call
            sub = ["neg", sub]
        return ["call", draw(st.sampled_from(["f", "h"])), sub]
    if t == "callS":
        return ["callS", "g", draw(st.sampled_from(refs + prods))]
    return ["ifz", draw(st.sampled_from(["flagA", "flags[index[0]]"])), draw(_expr(refs, prods, depth - 1, funcs))]


@st.composite
def _program(draw):
    n_series = draw(st.integers(2, 5))
    inputs = ["A"] + (["B"] if draw(st.integers(0, 2)) == 0 else [])
    series, products = [], []
    rank = {}  # name -> rank
    start_of = {}
    helper_adj = {}  # adjoint helper name -> base

    def needed_ok(terms, r):
        """All factors that may be needed at the top order are inputs or have rank < r."""
        def is_start0(x):
            return isinstance(x, str) and start_of.get(x) == 0

        def need(node, needed):
            # node: nested pair structure [(left, right)], leaves are names
            if isinstance(node, str):
                if needed and not (node in inputs or (node in rank and rank[node] < r)):
                    return False
                return True
            left, right = node
            return need(left, needed and not is_start0(right)) and need(right, needed and not is_start0(left))

        tree = terms[0]
        for t in terms[1:]:
            tree = (tree, t)
        return need(tree, True)

    if draw(st.integers(0, 3)) == 0:
        # a Hermitian sandwich A^dagger . (A + A^dagger) . A: the only 3-factor form for which `hermitian` is valid
        series.append({"name": "Ad", "start": None, "marker": None, "clauses": [[None, ["ref", "A", True]]]})
        series.append({"name": "Ah", "start": None, "marker": None, "clauses": [[None, ["add", ["ref", "A", False], ["ref", "A", True]]]]})
        for nm in ("Ad", "Ah"):
            rank[nm], start_of[nm] = -0.5, None
        helper_adj["Ad"] = "A"
        products.append({"terms": ["Ad", "Ah", "A"], "hermitian": True})
    for r in range(n_series):
        name = f"S{r}"
        refs = inputs + [s for s in rank if rank[s] < r and start_of.get(s) != 1]
        start = draw(st.sampled_from([None, 0, 0, 0, "A_0"]))
        start_of[name] = start
        rank[name] = r
        # candidate products for this series
        usable = []
        for p in products:
            if needed_ok(p["terms"], r):
                usable.append(" @ ".join(p["terms"]))
        for _ in range(draw(st.integers(0, 2))):
            pool = [x for x in inputs if x != "B"] + list(rank)
            k = draw(st.sampled_from([2, 2, 2, 3]))
            terms = [draw(st.sampled_from(pool)) for _ in range(k)]
            pname = " @ ".join(terms)
            if pname in [" @ ".join(p["terms"]) for p in products]:
                continue
            if not needed_ok(terms, r):
                continue
            products.append({"terms": terms, "hermitian": False})
            usable.append(pname)
        # hermitian product of mutual adjoints: helper series Xd = "X".adj with X of lower rank (or an input)
        if refs and draw(st.integers(0, 2)) == 0:
            base = draw(st.sampled_from([r_ for r_ in refs if r_ != "B"]))
            hname = base + "d"
            if hname not in rank:
                series.append({"name": hname, "start": None, "marker": None, "clauses": [[None, ["ref", base, True]]]})
                rank[hname] = rank.get(base, -1) + 0.5 if base in rank else -0.5
                start_of[hname] = None
                helper_adj[hname] = base
            pname = f"{hname} @ {base}"
            if pname not in [" @ ".join(p["terms"]) for p in products] and needed_ok([hname, base], r):
                products.append({"terms": [hname, base], "hermitian": True})
                usable.append(pname)
        marker = draw(st.sampled_from([None, None, "hermitian", "antihermitian"]))
        clauses = []
        for _ in range(draw(st.integers(1, 3))):
            cond = draw(st.sampled_from([None, None, "diagonal", "offdiagonal", "lower"] if not marker else [None, "diagonal", "offdiagonal"]))
            if not refs and not usable:
                continue
            if "B" in inputs:
                # the second input is only ever read inside explicit `if lower:` sections
                if cond == "lower" and draw(st.integers(0, 3)) > 0:
                    clauses.append([cond, ["ref", "B", draw(st.booleans())]])
                    continue
                crefs = [r_ for r_ in refs if r_ != "B"]
            else:
                crefs = refs
            clauses.append([cond, draw(_expr(crefs, usable, draw(st.integers(0, 3))))])
        if not clauses:
            clauses = [[None, ["ref", "A", False]]]
        series.append({"name": name, "start": start, "marker": marker, "clauses": clauses})
    # identity-start series used as product factor / output
    zero_started = [s["name"] for s in series if s["start"] == 0]
    if zero_started and draw(st.integers(0, 2)) == 0:
        base = draw(st.sampled_from(zero_started))
        series.append({"name": "I" + base, "start": 1, "marker": None, "clauses": [[None, ["ref", base, False]]]})
        rank["I" + base] = 99
        start_of["I" + base] = 1
        if draw(st.booleans()):
            products.append({"terms": ["I" + base, "A"], "hermitian": False})
        if draw(st.booleans()):
            # ... and its adjoint 1 + X^dagger, with the Hermitian product (1 + X^dagger)(1 + X) - the U^dagger U pattern,
            # in which one factor of a term of the half-sum is the identity sentinel
            series.append({"name": "I" + base + "d", "start": 1, "marker": None, "clauses": [[None, ["ref", base, True]]]})
            rank["I" + base + "d"] = 99
            start_of["I" + base + "d"] = 1
            products.append({"terms": ["I" + base + "d", "I" + base], "hermitian": True})
    candidates = [s["name"] for s in series]
    outputs = sorted(draw(st.sets(st.sampled_from(candidates), min_size=1, max_size=3)))
    return {"inputs": inputs, "series": series, "products": products, "outputs": outputs}


@st.composite
def _program_case(draw, tier):
    prog = draw(_program())
    nb = draw(st.sampled_from([2, 2, 3]))
    n_inf = draw(st.sampled_from([1, 1, 2]))
    sizes = [draw(st.integers(1, 2)) for _ in range(nb)]
    maxo = 3 if n_inf == 1 else 2
    names = [s["name"] for s in prog["series"]] + [" @ ".join(p["terms"]) for p in prog["products"]] + list(prog["inputs"])
    sched = []
    for _ in range(draw(st.integers(4, 14 if tier == "quick" else 30))):
        o = [draw(st.integers(0, maxo)) for _ in range(n_inf)]
        while sum(o) > maxo:
            o[o.index(max(o))] -= 1
        sched.append([draw(st.sampled_from(names)), draw(st.integers(0, nb - 1)), draw(st.integers(0, nb - 1))] + o)
    prefetch = draw(st.sampled_from(["none", "none", "evaluated", "data", "data_all"]))
    if "B" in prog["inputs"]:
        # the second input is read only inside explicit `if lower:` sections: ask for such a series below the diagonal
        # and then for the input element it consumed
        if draw(st.booleans()):
            prefetch = "data_all"
        for srs in prog["series"]:
            for cond, e in srs["clauses"]:
                if cond == "lower" and e[0] == "ref" and e[1] == "B" and nb >= 2:
                    i = draw(st.integers(1, nb - 1))
                    j = draw(st.integers(0, i - 1))
                    o = [draw(st.integers(0, 2 if n_inf == 1 else 1)) for _ in range(n_inf)]
                    sched.append([srs["name"], i, j] + o)
                    sched.append(["B", j, i] + o if e[2] else ["B", i, j] + o)
    return {
        "domain": "program", "program": prog, "nb": nb, "n_inf": n_inf, "sizes": sizes, "salt": draw(st.integers(0, 10**6)),
        "flagA": draw(st.booleans()), "flags": [draw(st.booleans()) for _ in range(nb)],
        "wrappers": draw(st.integers(0, 3)) == 0, "schedule": sched,
        "prefetch": prefetch,
    }


@st.composite
def _shipped_case(draw, tier):
    from vlib.gen_matrix import problems

    herm = draw(st.booleans()) or True
    p = draw(problems(tier, hermitian=True, min_blocks=2, max_blocks=3, max_N=6, max_params=2, reprs=("dense",), selections=("none",), max_K=3))
    return {"domain": "shipped", "problem": p, "variant": draw(st.sampled_from(["two_block_off", "commuting_all_false", "no_delete", "no_delete+commuting_all_false"])),
            "algorithm": draw(st.sampled_from(["main", "main", "nonhermitian"]))}


def strategy(tier):
    return st.one_of(_program_case(tier), _program_case(tier), _program_case(tier), _shipped_case(tier))


# ------------------------------------------------------------------------------ helpers
def _h(*xs):
    v = 0x9E3779B1
    for x in xs:
        v = (v ^ (int(x) + 0x7F4A7C15)) * 0x85EBCA6B % (2**32)
        v ^= v >> 13
    return v


def input_value(case, tag, idx):
    """Pure value function of the inputs: small Gaussian-integer blocks with a sparse zero pattern; None = absent."""
    i, j, o = idx[0], idx[1], idx[2:]
    salt = case["salt"]
    if sum(o) > 3 or _h(salt, 17, tag, i, j, *o) % 4 == 0:
        return None
    r, c = case["sizes"][i], case["sizes"][j]
    re = np.array([[_h(salt, 1, tag, i, j, a, b, *o) % 5 - 2 for b in range(c)] for a in range(r)])
    im = np.array([[_h(salt, 2, tag, i, j, a, b, *o) % 3 - 1 for b in range(c)] for a in range(r)])
    arr = re + 1j * im
    return arr if np.any(arr) else None


def _walk(e, fn):
    fn(e)
    for sub in e[1:]:
        if isinstance(sub, list) and sub and isinstance(sub[0], str) and sub[0] in ("ref", "neg", "add", "sub", "div", "call", "callS", "ifz"):
            _walk(sub, fn)


def program_features(prog):
    feats = set()
    if prog["products"]:
        feats.add("has-product")
    if any(p["hermitian"] for p in prog["products"]):
        feats.add("has-hermitian-product")
    names = {s["name"] for s in prog["series"]}
    for s in prog["series"]:
        if s["marker"]:
            feats.add("has-marker")
        if any(c == "lower" for c, _ in s["clauses"]):
            feats.add("explicit-lower-clause")
        for cond, e in s["clauses"]:
            def visit(x, cond=cond, s=s):
                if x[0] in ("call", "callS"):
                    feats.add("has-scope-call")
                    if cond is not None:
                        feats.add("nested-call-under-condition")
                if x[0] == "ref" and " @ " in x[1] and s["name"] in x[1].split(" @ "):
                    feats.add("has-recurrence")
            _walk(e, visit)
    return feats


# ----------------------------------------------------------------------------- check_case
def check_case(case, enforce_all=False):
    out = Outcome()
    out.labels.append("domain=" + case["domain"])
    if case["domain"] == "shipped":
        return _check_shipped(case, out)
    return _check_program(case, out)


def _check_program(case, out):
    from pymablock.algorithm_parsing import series_computation
    from pymablock.series import BlockSeries, one, zero

    prog = case["program"]
    nb, n_inf = case["nb"], case["n_inf"]
    out.labels += sorted(program_features(prog)) + [f"n_inf={n_inf}", f"grid={nb}", "inputs=" + case.get("prefetch", "none")]

    def to_ref(v):
        return dsl.ZERO if v is None else v

    def lib_input(tag):
        def ev(*index):
            v = input_value(case, tag, tuple(int(q) for q in index))
            return zero if v is None else v

        data = None
        if case.get("prefetch") == "data":
            # data-backed input: the zeroth order is stored in the series from the start
            data = {}
            for i in range(nb):
                for j in range(nb):
                    v = input_value(case, tag, (i, j) + (0,) * n_inf)
                    data[(i, j) + (0,) * n_inf] = zero if v is None else v
        if case.get("prefetch") == "data_all":
            # purely data-backed input (no eval at all): a deleted element could never be recomputed
            import itertools as _it

            data = {}
            for idx in _it.product(range(nb), range(nb), *[range(5)] * n_inf):
                v = input_value(case, tag, idx)
                if v is not None:
                    data[idx] = v
            return BlockSeries(data=data, shape=(nb, nb), n_infinite=n_inf, name=["A", "B"][tag])
        series_in = BlockSeries(eval=ev, data=data, shape=(nb, nb), n_infinite=n_inf, name=["A", "B"][tag])
        if case.get("prefetch") == "evaluated":
            # the caller has already looked at the unperturbed part before compiling the algorithm
            for i in range(nb):
                for j in range(nb):
                    series_in[(i, j) + (0,) * n_inf]
        return series_in

    keep = [np.array([[(_h(case["salt"], 77, b, x, y) % 3 != 0) or x == y for y in range(case["sizes"][b])] for x in range(case["sizes"][b])], dtype=float) for b in range(nb)]

    def scale(index):
        return 1 + int(index[0]) + 2 * int(index[1]) + sum(int(q) for q in index[2:])

    # ---- scope for the library (values may be the zero sentinel / BlockSeries)
    def f_lib(x, index):
        return zero if x is zero else x * scale(index)

    def h_lib(x, index):
        return zero if x is zero else -x

    def g_lib(series, index):
        v = series[index]
        return zero if v is zero else v * (2 + int(index[0]))

    def diag_lib(x, index):
        x = x[index] if isinstance(x, BlockSeries) else x
        return x if (x is zero or x is one) else x * keep[int(index[0])]

    def offdiag_lib(x, index):
        x = x[index] if isinstance(x, BlockSeries) else x
        return x if (x is zero or x is one) else x * (1 - keep[int(index[0])])

    scope = {"f": f_lib, "h": h_lib, "g": g_lib, "flagA": case["flagA"], "flags": list(case["flags"])}
    # ---- scope for the reference (values are arrays / "zero" / "one")
    def f_ref(x, index):
        return x if isinstance(x, str) else x * scale(index)

    def h_ref(x, index):
        return x if isinstance(x, str) else -x

    def g_ref(getter, index):
        v = getter(index)
        return v if isinstance(v, str) else v * (2 + int(index[0]))

    rscope = {"f": f_ref, "h": h_ref, "g": g_ref, "flagA": case["flagA"], "flags": list(case["flags"])}
    if case["wrappers"]:
        out.labels.append("has-selection-wrappers")
        scope["diag"], scope["offdiag"] = diag_lib, offdiag_lib
        rscope["diag"] = lambda x, index: x if isinstance(x, str) else x * keep[int(index[0])]
        rscope["offdiag"] = lambda x, index: x if isinstance(x, str) else x * (1 - keep[int(index[0])])
    tags = {"A": 0, "B": 1}
    ref = dsl.Reference(prog, {n: (lambda idx, t=tags[n]: to_ref(input_value(case, t, idx))) for n in prog["inputs"]}, nb, n_inf, rscope)
    try:
        algo, src = dsl.compile_program(prog)
        with warnings.catch_warnings():
            warnings.simplefilter("ignore")
            series, lo_series = series_computation({n: lib_input(tags[n]) for n in prog["inputs"]}, algo, scope)
    except Exception as exc:  # noqa: BLE001
        out.fail("compile-exception", f"series_computation raised {type(exc).__name__}: {str(exc)[:200]}\n{dsl.render(prog)}")
        return out
    asked_output = False
    late_intermediate = False
    for name, i, j, *o in case["schedule"]:
        idx = (i, j) + tuple(o)
        try:
            expect = ref.get(name, idx)
        except RecursionError:
            out.labels.append("skipped:reference-diverges")
            return out
        except ValueError:
            out.labels.append("skipped:identity-in-sum")
            return out
        try:
            with warnings.catch_warnings():
                warnings.simplefilter("ignore")
                got = series[name][idx]
        except Exception as exc:  # noqa: BLE001
            out.fail("exception", f'"{name}"{list(idx)} raised {type(exc).__name__}: {str(exc)[:200]}\n{dsl.render(prog)}')
            return out
        if not _same(got, expect, zero, one):
            out.fail("value", f'"{name}"{list(idx)} = {_show(got)}, direct interpretation gives {_show(expect)}\n{dsl.render(prog)}')
            return out
        if name in prog["outputs"]:
            asked_output = True
        elif asked_output and " @ " not in name:
            late_intermediate = True
    # the second return value: "the same series as above, but wrapped into linear operators" - element by element
    from scipy.sparse.linalg import LinearOperator

    for name, i, j, *o in case["schedule"]:
        idx = (i, j) + tuple(o)
        expect = ref.get(name, idx)
        try:
            with warnings.catch_warnings():
                warnings.simplefilter("ignore")
                got = lo_series[name][idx]
                if isinstance(got, LinearOperator):
                    got = np.asarray(got @ np.eye(got.shape[1]))
        except Exception as exc:  # noqa: BLE001
            out.fail("exception", f'linear-operator twin of "{name}"{list(idx)} raised {type(exc).__name__}: {str(exc)[:200]}\n{dsl.render(prog)}')
            return out
        if not _same(got, expect, zero, one):
            out.fail("linear-operator-twin", f'linear-operator twin of "{name}"{list(idx)} = {_show(got)}, direct interpretation gives {_show(expect)}\n{dsl.render(prog)}')
            return out
    if len(prog["inputs"]) >= 2:
        out.labels.append("inputs>=2")
    # which terms does the compiler delete? those read exactly once by the program (reference use counts)
    deleted = any(v == 1 and k[0] not in prog["inputs"] and k[0] not in prog["outputs"] and " @ " not in k[0] for k, v in ref.uses.items())
    if deleted:
        out.labels.append("deleted-term")
    feats = program_features(prog)
    out.nontrivial = bool({"has-product", "has-marker"} <= feats and deleted and late_intermediate)
    return out


def _same(got, expect, zero, one):
    if isinstance(expect, str):
        if expect == dsl.ZERO:
            return got is zero or (got is not one and not np.any(np.asarray(got)))
        return got is one
    if got is zero:
        return not np.any(expect)
    if got is one:
        return False
    got = np.asarray(got)
    return got.shape == expect.shape and float(np.abs(got - expect).max() if got.size else 0.0) <= 1e-12 * max(1.0, float(np.abs(expect).max() if expect.size else 0.0))


def _show(v):
    if isinstance(v, str):
        return v
    if isinstance(v, np.ndarray):
        return str(np.round(v, 6).tolist())
    return repr(v)


# ------------------------------------------------------------------- shipped algorithms
def _check_shipped(case, out):
    from pymablock.algorithm_parsing import series_computation
    from pymablock.algorithms import main, nonhermitian
    from pymablock.block_diagonalization import solve_sylvester_diagonal
    from vlib.cauchy import orders_upto
    from vlib.gen_matrix import energies, states_of
    from vlib.instrument import logged_hamiltonian

    p = case["problem"]
    nb = len(p["blocks"])
    algo = main if case["algorithm"] == "main" else nonhermitian
    out.labels += [f"algorithm={case['algorithm']}", f"variant={case['variant']}", f"blocks={nb}"]
    E = np.array(energies(p))
    eigs = tuple(E[s] for s in states_of(p))

    def run(two_block, commuting, no_delete):
        H, _ = logged_hamiltonian(p, form="blocked")
        H.name = "H"
        scope = {
            "solve_sylvester": solve_sylvester_diagonal(eigs),
            "use_linear_operator": np.zeros((nb, nb), dtype=bool),
            "two_block_optimized": two_block,
            "commuting_blocks": commuting,
        }
        if no_delete:
            scope["del_"] = lambda *args: None
        with warnings.catch_warnings():
            warnings.simplefilter("ignore")
            series, _ = series_computation({"H": H}, algo, scope)
        return series

    base = run(nb == 2, [True] * nb, False)
    v = case["variant"]
    try:
        other = run(nb == 2 and v != "two_block_off", [False] * nb if "commuting_all_false" in v else [True] * nb, "no_delete" in v)
    except Exception as exc:  # noqa: BLE001
        out.fail("exception", f"variant {v} raised {type(exc).__name__}: {str(exc)[:200]}")
        return out
    from pymablock.series import one, zero

    compared2 = False
    for n in orders_upto(p["n_params"], p["K"]):
        for name in ("H_tilde", "U", "U†"):
            for i in range(nb):
                for j in range(nb):
                    try:
                        a, b = base[name][(i, j) + n], other[name][(i, j) + n]
                    except Exception as exc:  # noqa: BLE001
                        out.fail("exception", f"{name}[{i},{j},{list(n)}] raised {type(exc).__name__}: {str(exc)[:200]} (variant {v})")
                        return out
                    av = dsl.ZERO if a is zero else dsl.ONE if a is one else np.asarray(a)
                    if not _same(b, av, zero, one) and not (isinstance(av, np.ndarray) and b is not zero and b is not one and np.allclose(np.asarray(b), av, rtol=0, atol=1e-10 * max(1.0, float(np.abs(av).max())))):
                        out.fail("flag-changes-value", f"{name}[{i},{j},{list(n)}] differs between the default flags and variant {v} ({case['algorithm']})")
                        return out
                    if sum(n) >= 2:
                        compared2 = True
    out.nontrivial = bool(nb >= 2 and compared2)
    return out
