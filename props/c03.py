"""C03 - the result is the unique least-action (Schrieffer-Wolff) transformation."""
from __future__ import annotations

from vlib import bd_checks
from vlib.gen_matrix import problems
from vlib.runner import Outcome

ID = "C03"
LEVEL = "exploration"
LEVEL_TEXT = (
    "Generated search over the C01 problem space: (a) the anti-Hermitian part (U - U_inv)/2 has no kept matrix "
    "element at any order; (b) H_tilde, U and U_inv equal the output of an independent, unoptimised order-by-order "
    "solver of the defining equations (unitarity, elimination, gauge) that multiplies by H_0 explicitly and checks "
    "its own result - identically in exact rational arithmetic (sympy inputs), to 1e-9 x magnitude in floating "
    "point. Holds on everything generated; no proof."
)
LEVEL_NOTE = (
    "Trusted: vlib/refsolve.py (self-checking reference solver), vlib/exact.py. A quarter of the cases run in exact "
    "arithmetic. Bounds as C01."
)
TECHNIQUE = "property-based testing (Hypothesis), differential against an independent reference solver (float + exact)"
BUDGET = {"quick": 1200, "thorough": 40000}
SHRINK_SECONDS = {"quick": 40, "thorough": 200}
RULE = (
    "case = vlib.gen_matrix.problems(hermitian=True) (see C01). Non-trivial = eliminated set non-empty AND the "
    "reference solver's eliminating part V_n = (U_n - U_n^dagger)/2 is non-zero at some order >= 2."
)
ASSUMPTIONS = ["as C01", "uniqueness is used: any solver of the same three defining equations must agree"]
REQUIRED_CLASSES = {"all": ["blocks=3", "params=2", "repr=sympy", "repr=sparse", "selection=mask", "selection=full"]}


FORMS = ("indices", "indices", "indices", "blocks", "blocks", "eigvecs", "symmatrix")


def strategy(tier):
    if tier == "thorough":
        return problems(tier, hermitian=True, max_N=10, max_block_size=4, forms=FORMS)
    from hypothesis import strategies as st

    # one case in eight is a small exact (sympy) two-block problem with a fully or selectively diagonalised block -
    # equal block sizes, zero blocks and symbolic masks meet there far more often than in the general stream
    small = problems(tier, hermitian=True, min_blocks=2, max_blocks=2, max_N=4, reprs=("sympy",), selections=("full", "mask"), forms=FORMS)
    general = problems(tier, hermitian=True, forms=FORMS)
    return st.one_of(*([general] * 7 + [small]))


def check_case(case, enforce_all=False):
    out = Outcome()
    out.labels = bd_checks.labels_for(case)
    ctx = bd_checks.Ctx(case, out)
    if not ctx.ok:
        return out
    res = {}
    for name, key in (("U", "U"), ("U_inv", "Ui"), ("H_tilde", "Ht")):
        res[key] = ctx.all_orders(name)
        if res[key] is None:
            return out
    ref = bd_checks.reference(ctx, hermitian=True)
    if bd_checks.check_gauge(ctx, res):
        bd_checks.check_reference(ctx, res, ref)
    out.nontrivial = bool(
        ctx.R.any() and any(sum(n) >= 2 and bd_checks.nonzero(ref["U"][n] - ref["Ui"][n]) for n in ctx.orders)
    )
    out.info["N"] = ctx.N
    return out
