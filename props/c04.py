"""C04 - the truncated effective Hamiltonian has the exact spectrum to the requested order."""
from __future__ import annotations

from vlib import bd_checks
from vlib.gen_matrix import problems
from vlib.runner import Outcome

ID = "C04"
LEVEL = "exploration"
LEVEL_TEXT = (
    "Generated search over the C01 problem space; the oracle never looks at U: by truncated polynomial-matrix "
    "arithmetic the power sums tr H(lambda)^k and tr H_tilde^(K)(lambda)^k, k = 1..N, are compared coefficient by "
    "coefficient up to total degree K (by Newton's identities this is agreement of the characteristic polynomials "
    "to order K); for every level whose row and column keep only the diagonal and that is non-degenerate, the "
    "diagonal of H_tilde is compared with a textbook Rayleigh-Schroedinger series. Exact in exact mode. No proof."
)
LEVEL_NOTE = (
    "Trusted: vlib/bd_checks.check_spectrum (truncated polynomial matrix powers), vlib/refsolve.rayleigh_schroedinger, "
    "vlib/exact.py. Bounds: N <= 7 (thorough 9), total order <= 4 (thorough 5), <= 3 parameters."
)
TECHNIQUE = "property-based testing (Hypothesis) with a characteristic-polynomial (power-sum) oracle and a Rayleigh-Schroedinger reference"
BUDGET = {"quick": 1200, "thorough": 30000}
SHRINK_SECONDS = {"quick": 40, "thorough": 200}
RULE = (
    "case = vlib.gen_matrix.problems(hermitian=True) (see C01). Non-trivial = K >= 2 AND N >= 3 AND some perturbation "
    "term couples different blocks (non-zero on the eliminated set)."
)
ASSUMPTIONS = ["as C01", "power sums 1..N determine the characteristic polynomial (Newton's identities, characteristic 0)"]
REQUIRED_CLASSES = {"all": ["blocks=3", "params=2", "repr=sympy", "selection=full", "rs-checked"]}


FORMS = ("indices", "indices", "indices", "blocks", "blocks", "eigvecs", "symmatrix")


def strategy(tier):
    if tier == "thorough":
        return problems(tier, hermitian=True, max_N=9, max_block_size=4, forms=FORMS)
    from hypothesis import strategies as st

    # one case in eight is a small exact (sympy) two-block problem with a fully or selectively diagonalised block -
    # equal block sizes, zero blocks and symbolic masks meet there far more often than in the general stream
    small = problems(tier, hermitian=True, min_blocks=2, max_blocks=2, max_N=4, reprs=("sympy",), selections=("full", "mask"), forms=FORMS)
    general = problems(tier, hermitian=True, forms=FORMS)
    return st.one_of(*([general] * 7 + [small]))


def check_case(case, enforce_all=False):
    out = Outcome()
    out.labels = bd_checks.labels_for(case)
    ctx = bd_checks.Ctx(case, out)
    if not ctx.ok:
        return out
    Ht = ctx.all_orders("H_tilde")
    if Ht is None:
        return out
    if bd_checks.check_spectrum(ctx, Ht):
        n_rs = bd_checks.check_rayleigh_schroedinger(ctx, Ht)
        if n_rs:
            out.labels.append("rs-checked")
    couples = ctx.R.any() and any(bd_checks.nonzero(t[ctx.R]) for t in ctx.terms.values())
    out.nontrivial = bool(ctx.K >= 2 and ctx.N >= 3 and couples)
    out.info["N"] = ctx.N
    return out
