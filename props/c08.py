"""C08 - NumberOrderedForm arithmetic faithfully represents the operator algebra."""
from __future__ import annotations

import numpy as np
from hypothesis import strategies as st

from vlib.runner import Outcome

ID = "C08"
LEVEL = "exploration"
LEVEL_TEXT = (
    "Generated search over operator expressions - words of 2-6 ladder-type atoms and number functions with a drawn "
    "parenthesisation (so right operands carry several annihilators), plus free expression trees with sums, "
    "differences, integer powers and adjoints - over 1-3 modes of mixed statistics (boson, ladder, spin-1/2 incl. "
    "sigma_x,y,z, fermion). Oracle: an independent matrix representation (unnormalised Fock basis, shift lattice, "
    "Jordan-Wigner) compared on states away from the truncation edge: M(from_expr(e)) = M(e); M(x*y) = M(x)M(y), "
    "M(x+-y), M(x**k), M(adjoint x) = M(x)^dagger; as_expr round trip; associativity, distributivity and "
    "(xy)^dagger = y^dagger x^dagger decided through the matrices (never through NumberOrderedForm equality). No proof."
)
LEVEL_NOTE = (
    "Trusted: vlib/fock.py (integer matrix elements; number functions evaluated by sympy.lambdify), the term convention "
    "documented by NumberOrderedForm.as_expr (creators ascending . f(N) . annihilators descending). Coefficients with "
    "poles at integers (known finding K3) are excluded by construction: 1/(N + r) only with half-integer r. "
    "Bounds: <= 3 modes, words <= 6 atoms, trees of depth <= 4, cutoff = degree + 2."
)
TECHNIQUE = "property-based testing (Hypothesis): NumberOrderedForm operations vs an independent Fock-space matrix model + coverage-guided fuzzing stage (atheris/libFuzzer driving the same strategy and oracle)"
BUDGET = {"quick": 8000, "thorough": 200000}
FUZZ = {"quick": 3200, "thorough": 32000}  # executions of the coverage-guided stage (vlib/fuzz.py)
SHRINK_SECONDS = {"quick": 30, "thorough": 150}
RULE = (
    "case = (1-3 modes of drawn statistics, expression tree: word with random parenthesisation (primary) or free tree "
    "(secondary) over atoms {op, op^dagger, N, polynomial p(N), 1/(N + half-integer), sigma_x/y/z, rationals, complex constants, complex polynomials of N}); the arithmetic is evaluated twice: on operands converted with the full operator list and on operands converted separately with their own lists. "
    "Non-trivial = the top product has a right operand with >= 2 ladder-type operators, or a number-dependent "
    "coefficient multiplies unmatched annihilators, or >= 2 statistics are mixed; and the reference matrix is non-zero."
)
ASSUMPTIONS = ["comparisons only on input states at least (number of ladder-type atoms) + 1 away from the truncation edge"]
REQUIRED_CLASSES = {"all": ["right-operand>=2-annihilators", "number-coefficient-with-annihilators", "mixed-statistics",
                            "has-fermion", "has-spin", "has-ladder", "kind=word", "kind=tree", "two-fermion-right-operand", "complex-coefficient"]}

MODE_SETS = [
    [["b", "a"]], [["b", "a"]], [["l", "l"]], [["s", "s"]], [["f", "f"], ["f", "g"]], [["f", "f"], ["f", "g"], ["f", "h"]],
    [["b", "a"], ["f", "f"]], [["b", "a"], ["s", "s"]], [["b", "a"], ["l", "l"]], [["l", "l"], ["s", "s"]],
    [["s", "s"], ["f", "f"], ["f", "g"]], [["b", "a"], ["f", "f"], ["f", "g"]], [["b", "a"], ["b", "b"]],
    [["s", "s"], ["s", "t"], ["f", "f"]], [["b", "a"], ["l", "l"], ["s", "s"]],
]


def _atoms(modes):
    ops, nums = [], []
    for kind, name in modes:
        ops += [["op", kind, name], ["dag", kind, name]]
        nums += [["num", kind, name], ["inv", kind, name, 1], ["inv", kind, name, 3], ["poly", kind, name, [1, 0, 1]], ["poly", kind, name, [-1, 2, 0]],
                 # complex functions of the number operator: 2 - i N and i N
                 ["cpoly", kind, name, [2, -1]], ["cpoly", kind, name, [0, 1]]]
        if kind == "s":
            ops += [["sigma", name, "x"], ["sigma", name, "y"], ["sigma", name, "z"]]
    return ops, nums


@st.composite
def _paren(draw, items):
    if len(items) == 1:
        return items[0]
    k = draw(st.integers(1, len(items) - 1))
    return ["mul", draw(_paren(items[:k])), draw(_paren(items[k:]))]


@st.composite
def _tree(draw, ops, nums, depth):
    if depth == 0 or draw(st.integers(0, 3)) == 0:
        return draw(st.sampled_from(ops + ops + nums + [["const", 2, 1], ["const", 1, 3], ["const", -1, 2], ["consti", 2, -3], ["consti", 0, 1]]))
    t = draw(st.sampled_from(["mul", "mul", "mul", "add", "sub", "pow", "dagger"]))
    if t in ("mul", "add", "sub"):
        return [t, draw(_tree(ops, nums, depth - 1)), draw(_tree(ops, nums, depth - 1))]
    if t == "pow":
        return ["pow", draw(_tree(ops, nums, depth - 1)), draw(st.integers(2, 3))]
    return ["dagger", draw(_tree(ops, nums, depth - 1))]


@st.composite
def _case(draw, tier):
    modes = draw(st.sampled_from(MODE_SETS))
    ops, nums = _atoms(modes)
    if draw(st.integers(0, 3)) > 0:
        L = draw(st.integers(2, 6))
        items = [draw(st.sampled_from(ops)) if draw(st.integers(0, 4)) else draw(st.sampled_from(nums)) for _ in range(L)]
        tree = draw(_paren(items))
        kind = "word"
    else:
        tree = draw(_tree(ops, nums, 3))
        kind = "tree"
    return {"modes": modes, "tree": tree, "kind": kind}


def strategy(tier):
    return _case(tier)


# ----------------------------------------------------------------------------- semantics
def degree(tree):
    t = tree[0]
    if t in ("op", "dag", "sigma"):
        return 1
    if t in ("num", "inv", "invi", "poly", "cpoly", "const", "consti"):
        return 0
    if t == "mul":
        return degree(tree[1]) + degree(tree[2])
    if t in ("add", "sub"):
        return max(degree(tree[1]), degree(tree[2]))
    if t == "pow":
        return degree(tree[1]) * tree[2]
    return degree(tree[1])


class Sem:
    """Three interpretations of a tree: sympy expression, NumberOrderedForm (via its arithmetic), matrix."""

    def __init__(self, modes, cutoff):
        import sympy
        from sympy.physics.quantum import pauli

        from pymablock.number_ordered_form import NumberOperator, NumberOrderedForm
        from vlib.fock import Space, make_ops

        self.sympy, self.pauli = sympy, pauli
        self.NOF, self.NumberOperator = NumberOrderedForm, NumberOperator
        self.ops = make_ops(modes)
        self.by_name = {(k, n): make_ops([[k, n]])[0] for k, n in modes}
        self.space = Space(self.ops, cutoff)

    def atom_expr(self, a):
        sp = self.sympy
        from sympy.physics.quantum import Dagger

        t = a[0]
        if t == "const":
            return sp.Rational(a[1], a[2])
        if t == "consti":
            return sp.Integer(a[1]) + sp.I * sp.Integer(a[2])
        if t == "sigma":
            return {"x": self.pauli.SigmaX, "y": self.pauli.SigmaY, "z": self.pauli.SigmaZ}[a[2]](a[1])
        op = self.by_name[(a[1], a[2])]
        if t == "op":
            return op
        if t == "dag":
            return Dagger(op)
        n = self.NumberOperator(op)
        if t == "num":
            return n
        if t == "inv":
            return 1 / (n + sp.Rational(a[3], 2))
        if t == "invi":  # pole at a negative integer: class of known finding K3, never generated
            return 1 / (n + sp.Integer(a[3]))
        if t == "poly":
            c = a[3]
            return sp.Integer(c[0]) + c[1] * n + c[2] * n**2
        if t == "cpoly":
            c = a[3]
            return sp.Integer(c[0]) + sp.I * c[1] * n
        raise AssertionError(a)

    def expr(self, tree):
        from sympy.physics.quantum import Dagger

        t = tree[0]
        if t == "mul":
            return self.expr(tree[1]) * self.expr(tree[2])
        if t == "add":
            return self.expr(tree[1]) + self.expr(tree[2])
        if t == "sub":
            return self.expr(tree[1]) - self.expr(tree[2])
        if t == "pow":
            return self.expr(tree[1]) ** tree[2]
        if t == "dagger":
            return Dagger(self.expr(tree[1]))
        return self.atom_expr(tree)

    def nof(self, tree):
        t = tree[0]
        if t == "mul":
            return self.nof(tree[1]) * self.nof(tree[2])
        if t == "add":
            return self.nof(tree[1]) + self.nof(tree[2])
        if t == "sub":
            return self.nof(tree[1]) - self.nof(tree[2])
        if t == "pow":
            return self.nof(tree[1]) ** tree[2]
        if t == "dagger":
            return self.nof(tree[1]).adjoint()
        return self.NOF.from_expr(self.sympy.sympify(self.atom_expr(tree)), operators=self.ops)

    def nof_auto(self, tree):
        """As nof(), but every atom is converted WITHOUT an operator list, so the operands of the arithmetic carry
        different (and differently ordered) operator lists that the library has to merge."""
        t = tree[0]
        if t == "mul":
            return self.nof_auto(tree[1]) * self.nof_auto(tree[2])
        if t == "add":
            return self.nof_auto(tree[1]) + self.nof_auto(tree[2])
        if t == "sub":
            return self.nof_auto(tree[1]) - self.nof_auto(tree[2])
        if t == "pow":
            return self.nof_auto(tree[1]) ** tree[2]
        if t == "dagger":
            return self.nof_auto(tree[1]).adjoint()
        return self.NOF.from_expr(self.sympy.sympify(self.atom_expr(tree)))

    def mat(self, tree):
        t = tree[0]
        if t == "mul":
            return self.mat(tree[1]) @ self.mat(tree[2])
        if t == "add":
            return self.mat(tree[1]) + self.mat(tree[2])
        if t == "sub":
            return self.mat(tree[1]) - self.mat(tree[2])
        if t == "pow":
            return np.linalg.matrix_power(self.mat(tree[1]), tree[2])
        if t == "dagger":
            return self.space.adjoint(self.mat(tree[1]))
        return np.asarray(self.space.expr_matrix(self.atom_expr(tree)), dtype=complex)


def _annihilator_count(tree):
    """(ladder-type atoms, number-function atoms) in a subtree."""
    t = tree[0]
    if t in ("op", "dag", "sigma"):
        return 1, 0
    if t in ("num", "inv", "invi", "poly", "cpoly"):
        return 0, 1
    if t in ("const", "consti"):
        return 0, 0
    if t in ("mul", "add", "sub"):
        a, b = _annihilator_count(tree[1]), _annihilator_count(tree[2])
        return a[0] + b[0], a[1] + b[1]
    return _annihilator_count(tree[1])


def _has_complex(tree):
    if tree[0] in ("cpoly", "consti") or (tree[0] == "sigma" and tree[2] == "y"):
        return True
    return any(isinstance(sub, list) and sub and isinstance(sub[0], str) and _has_complex(sub) for sub in tree[1:])


def _kinds_in(tree, acc):
    if tree[0] in ("op", "dag", "num", "inv", "invi", "poly", "cpoly"):
        acc.add(tree[1])
    elif tree[0] == "sigma":
        acc.add("s")
    elif tree[0] not in ("const", "consti"):
        for sub in tree[1:]:
            if isinstance(sub, list):
                _kinds_in(sub, acc)
    return acc


def check_case(case, enforce_all=False):
    out = Outcome()
    tree = case["tree"]
    deg = degree(tree)
    out.labels.append("kind=" + case["kind"])
    kinds = {k for k, _ in case["modes"]}
    for k, lab in (("f", "has-fermion"), ("s", "has-spin"), ("l", "has-ladder"), ("b", "has-boson")):
        if k in kinds:
            out.labels.append(lab)
    used = _kinds_in(tree, set())
    if len(used) >= 2:
        out.labels.append("mixed-statistics")
    if deg > 8:
        out.labels.append("skipped:degree-too-high")
        return out
    n_inf = sum(1 for k, _ in case["modes"] if k in ("b", "l"))
    cutoff = deg + 2 if n_inf <= 1 else min(deg + 2, 6)
    margin = deg + 1
    if cutoff - margin < 0:
        out.labels.append("skipped:cutoff")
        return out
    sem = Sem(case["modes"], cutoff)
    safe = sem.space.safe(margin)
    if len(safe) == 0:
        out.labels.append("skipped:no-safe-states")
        return out

    def close(A, B, what, sig):
        A, B = A[:, safe], B[:, safe]
        scale = max(1.0, float(np.nanmax(np.abs(B))) if B.size else 1.0)
        if not np.all(np.isfinite(A)) or float(np.abs(A - B).max()) > 1e-9 * scale:
            bad = np.argwhere(~(np.abs(A - B) <= 1e-9 * scale))
            r, c = bad[0]
            out.fail(sig, f"{what}: matrix element <{sem.space.occ(sem.space.states[r])}|.|{sem.space.occ(sem.space.states[safe[c]])}> is {A[r, c]:.6g}, operator algebra gives {B[r, c]:.6g}; expression {show(tree)}")
            return False
        return True

    try:
        M_ref = sem.mat(tree)
    except Exception as exc:  # noqa: BLE001
        raise AssertionError(f"matrix model failed on {show(tree)}: {exc}") from exc
    if not np.all(np.isfinite(M_ref[:, safe])):
        out.labels.append("skipped:singular-coefficient")
        return out
    # 1. arithmetic of NumberOrderedForm objects
    try:
        X = sem.nof(tree)
        M_x = sem.space.nof_matrix(X)
    except Exception as exc:  # noqa: BLE001
        out.fail("exception", f"NumberOrderedForm arithmetic raised {type(exc).__name__}: {str(exc)[:160]} on {show(tree)}")
        return out
    if not close(M_x, M_ref, "arithmetic (+, -, *, **, adjoint)", "arithmetic"):
        return out
    # 1b. the same arithmetic on forms that were converted separately, each with its own automatically found operator
    #     list (a proper subset of the modes, or none for a constant)
    if len(case["modes"]) >= 2:
        try:
            Xa = sem.nof_auto(tree)
            M_xa = sem.space.nof_matrix(Xa)
        except Exception as exc:  # noqa: BLE001
            out.fail("exception", f"NumberOrderedForm arithmetic on separately converted operands raised {type(exc).__name__}: {str(exc)[:160]} on {show(tree)}")
            return out
        if not close(M_xa, M_ref, "arithmetic on operands with different operator lists", "arithmetic-mixed-lists"):
            return out
        out.labels.append("operands-with-different-operator-lists")
    try:
        e = sem.expr(tree)
        Y = sem.NOF.from_expr(sem.sympy.sympify(e), operators=sem.ops)
        M_y = sem.space.nof_matrix(Y)
    except Exception as exc:  # noqa: BLE001
        out.fail("exception", f"from_expr raised {type(exc).__name__}: {str(exc)[:160]} on {show(tree)}")
        return out
    if not close(M_y, M_ref, "from_expr(expression)", "from_expr"):
        return out
    # ... and with the operator list left to the library (find_operators)
    try:
        M_y2 = sem.space.nof_matrix(sem.NOF.from_expr(sem.sympy.sympify(e)))
    except Exception as exc:  # noqa: BLE001
        out.fail("exception", f"from_expr without an operator list raised {type(exc).__name__}: {str(exc)[:160]} on {show(tree)}")
        return out
    if not close(M_y2, M_ref, "from_expr(expression) with automatic operator list", "from_expr"):
        return out
    # 3. conversion back
    try:
        back = X.as_expr()
        M_b = np.asarray(sem.space.expr_matrix(back), dtype=complex)
        Z = sem.NOF.from_expr(sem.sympy.sympify(back), operators=sem.ops)
        M_z = sem.space.nof_matrix(Z)
    except Exception as exc:  # noqa: BLE001
        out.fail("exception", f"as_expr round trip raised {type(exc).__name__}: {str(exc)[:160]} on {show(tree)}")
        return out
    if not close(M_b, M_ref, "as_expr()", "as_expr"):
        return out
    if not close(M_z, M_ref, "from_expr(as_expr())", "round-trip"):
        return out
    # 4. algebraic laws on the top-level factors
    if tree[0] == "mul":
        x, y = tree[1], tree[2]
        try:
            nx, ny = sem.nof(x), sem.nof(y)
            lhs = sem.space.nof_matrix((nx * ny).adjoint())
            rhs = sem.space.nof_matrix(ny.adjoint() * nx.adjoint())
            if not close(lhs, sem.space.adjoint(M_ref), "(xy)^dagger", "adjoint-reverses") or not close(rhs, sem.space.adjoint(M_ref), "y^dagger x^dagger", "adjoint-reverses"):
                return out
            if y[0] == "mul":
                y1, y2 = sem.nof(y[1]), sem.nof(y[2])
                if not close(sem.space.nof_matrix((nx * y1) * y2), M_ref, "(x*y1)*y2 vs x*(y1*y2)", "associativity"):
                    return out
                s1 = sem.space.nof_matrix(nx * (y1 + y2))
                s2 = sem.space.nof_matrix(nx * y1 + nx * y2)
                ref = sem.mat(x) @ (sem.mat(y[1]) + sem.mat(y[2]))
                if not close(s1, ref, "x*(y1+y2)", "distributivity") or not close(s2, ref, "x*y1 + x*y2", "distributivity"):
                    return out
            if x[0] == "mul":
                x1, x2 = sem.nof(x[1]), sem.nof(x[2])
                if not close(sem.space.nof_matrix(x1 * (x2 * ny)), M_ref, "x1*(x2*y) vs (x1*x2)*y", "associativity"):
                    return out
        except Exception as exc:  # noqa: BLE001
            out.fail("exception", f"algebraic-law evaluation raised {type(exc).__name__}: {str(exc)[:160]} on {show(tree)}")
            return out
        ry = _annihilator_count(y)
        if ry[0] >= 2:
            out.labels.append("right-operand>=2-annihilators")
            if _kinds_in(y, set()) == {"f"} or "f" in _kinds_in(y, set()):
                out.labels.append("two-fermion-right-operand")
    if _has_complex(tree):
        out.labels.append("complex-coefficient")
    a, nf = _annihilator_count(tree)
    if nf >= 1 and a >= 2:
        out.labels.append("number-coefficient-with-annihilators")
    rich = {"right-operand>=2-annihilators", "number-coefficient-with-annihilators", "mixed-statistics"} & set(out.labels)
    out.nontrivial = bool(rich and float(np.abs(M_ref[:, safe]).max()) > 0)
    return out


def show(tree):
    t = tree[0]
    if t == "mul":
        return f"({show(tree[1])} * {show(tree[2])})"
    if t == "add":
        return f"({show(tree[1])} + {show(tree[2])})"
    if t == "sub":
        return f"({show(tree[1])} - {show(tree[2])})"
    if t == "pow":
        return f"({show(tree[1])})**{tree[2]}"
    if t == "dagger":
        return f"Dagger({show(tree[1])})"
    if t == "op":
        return tree[2]
    if t == "dag":
        return tree[2] + "^"
    if t == "num":
        return "N_" + tree[2]
    if t == "inv":
        return f"1/(N_{tree[2]}+{tree[3]}/2)"
    if t == "invi":
        return f"1/(N_{tree[2]}+{tree[3]})"
    if t == "poly":
        return f"p{tree[3]}(N_{tree[2]})"
    if t == "cpoly":
        return f"({tree[3][0]}+{tree[3][1]}i*N_{tree[2]})"
    if t == "consti":
        return f"({tree[1]}+{tree[2]}i)"
    if t == "sigma":
        return f"sigma_{tree[2]}({tree[1]})"
    return f"{tree[1]}/{tree[2]}"
