"""C13 - multi-parameter order bookkeeping: scale, merge/split, permute, pad, substitute (metamorphic)."""
from __future__ import annotations

import itertools

from hypothesis import strategies as st

from vlib import bd_checks, metamorphic as mm
from vlib.cauchy import orders_upto
from vlib.gen_matrix import order_key, problems
from vlib.runner import Outcome

ID = "C13"
LEVEL = "exploration"
LEVEL_TEXT = (
    "Metamorphic generated search: for a generated problem (Hermitian, or non-Hermitian in the class where the "
    "library is right) and a drawn relation - scaling perturbation k by c_k, merging two parameters into one / "
    "splitting one perturbation into two parameters, permuting parameters, padding with a vanishing perturbation, "
    "substituting lambda -> lambda^p - the library is run on both inputs and H_tilde, U, U_inv of the transformed "
    "problem are compared at every multi-order with the value the relation predicts from the original run (exact in "
    "exact mode, 1e-9 x magnitude in floating point). No oracle beyond the library on a related input. No proof."
)
LEVEL_NOTE = (
    "Trusted: the transformation code in props/c13.py, vlib assembling of full matrices. Bounds: <= 3 parameters before "
    "and after the transformation, total order <= 4, N <= 7."
)
TECHNIQUE = "metamorphic property-based testing (Hypothesis): related block_diagonalize runs compared order by order"
BUDGET = {"quick": 700, "thorough": 30000}
SHRINK_SECONDS = {"quick": 40, "thorough": 200}
RULE = (
    "case = (problem from vlib.gen_matrix.problems, relation in {scale, merge, split, permute, pad, power}, relation "
    "parameters, input as dict / list / monomial-key dict / one symbolic matrix). Non-trivial = the transformed or the original problem has >= 2 parameters (or relation=power), "
    "K >= 2 and U_n != 0 at some order >= 2 of the original."
)
ASSUMPTIONS = [
    "scale factors are non-zero integers (negative included); power p in {2,3}",
    "non-Hermitian problems are restricted to the class outside known finding K1",
]
REQUIRED_CLASSES = {"all": ["relation=scale", "relation=merge", "relation=split", "relation=permute", "relation=pad", "relation=power", "mode=nonhermitian", "params=3", "symbolic-matrix-input"]}


def strategy(tier):
    herm = problems(tier, hermitian=True, max_params=3)
    nh = problems(tier, hermitian=False, complex_energy=True, safe_bias=True, max_params=3)

    @st.composite
    def cases(draw):
        p = draw(st.one_of(herm, herm, nh))
        k = p["n_params"]
        rels = ["scale", "permute", "power"]
        if k >= 2:
            rels += ["merge", "merge"]
        if k <= 2:
            rels += ["pad", "split"]
        if p["repr"] == "sympy" and p["hermitian"] and k >= 2:
            # exact Hermitian problems are also handed over as ONE symbolic matrix (Taylor expansion of the input): make
            # sure mixed monomials x*y, x**2*y occur there, and prefer the relations that mix orders of different parameters
            mixed = [o for o in __import__("itertools").product(range(3), repeat=k) if 2 <= sum(o) <= 3 and sum(1 for x in o if x) >= 2]
            terms = dict(p["terms"])
            first = sorted(s_ for s_ in terms if sum(order_key(s_)) == 1)
            for o in draw(st.lists(st.sampled_from(mixed), min_size=1, max_size=2, unique=True)):
                terms.setdefault(",".join(map(str, o)), terms[draw(st.sampled_from(first))])
            p = dict(p, terms=terms)
            rels = ["merge", "merge", "power", "permute", "scale"]
        rel = draw(st.sampled_from(rels))
        par = {}
        if rel == "scale":
            par["c"] = [draw(st.sampled_from([-3, -2, -1, 2, 3])) for _ in range(k)]
            pure = all(sum(order_key(s_)) == 1 for s_ in p["terms"])
            if pure and p["repr"] != "sympy" and draw(st.integers(0, 2)) == 0:
                # "weak perturbation" class: the original problem has perturbations of order 1e-9 (all entries between
                # 2e-10 and 4e-9, i.e. far above the library's absolute tolerance 1e-12) and the scale factors bring them
                # back to order one, so that every comparison happens at the scale of the transformed problem
                p = dict(p, den=p["den"] * 2**30)
                par["c"] = [c_ * 2**30 for c_ in par["c"]]
                par["tiny_original"] = True
        elif rel == "permute":
            par["perm"] = list(draw(st.permutations(range(k))))
        elif rel == "power":
            par["which"] = draw(st.integers(0, k - 1))
            par["p"] = draw(st.sampled_from([2, 2, 3]))
        elif rel == "merge":
            a = draw(st.integers(0, k - 2))
            par["pair"] = [a, draw(st.integers(a + 1, k - 1))]
        elif rel == "pad":
            par["pos"] = draw(st.integers(0, k))
        elif rel == "split":
            par["which"] = draw(st.integers(0, k - 1))
            par["salt"] = draw(st.integers(0, 10**6))
        par["as_list"] = draw(st.booleans())
        # dict input with sympy monomial keys (1, x, x*y, x**2*y ...) instead of order tuples
        par["as_monomial"] = draw(st.integers(0, 2)) == 0
        if par["as_monomial"] and k >= 2 and p["repr"] != "sympy":
            # ... with a product key that contains a power (x**2*y), at an order that is reached
            terms = dict(p["terms"])
            first = sorted(s_ for s_ in terms if sum(order_key(s_)) == 1)
            o = [2, 1] + [0] * (k - 2) if draw(st.booleans()) else [0] * (k - 2) + [1, 2]
            terms.setdefault(",".join(map(str, o)), terms[first[0]])
            p = dict(p, terms=terms, K=max(p["K"], 3))
        return {"problem": p, "relation": rel, "par": par}

    return cases()


def _key(o):
    return ",".join(str(x) for x in o)


def _scaled(M, c):
    return [[[e[0] * c, e[1] * c] for e in row] for row in M]


def _added(A, B):
    return [[[a[0] + b[0], a[1] + b[1]] for a, b in zip(ra, rb)] for ra, rb in zip(A, B)]


def transform(case):
    """Return (transformed problem, function mapping a transformed order n' to a list of (original order, factor))."""
    p = case["problem"]
    rel, par = case["relation"], case["par"]
    k = p["n_params"]
    terms = {order_key(s): M for s, M in p["terms"].items()}
    q = dict(p)
    K = p["K"]
    if rel == "scale":
        c = par["c"]

        def fac(o):
            f = 1
            for ck, ok in zip(c, o):
                f *= ck**ok
            return f

        q["terms"] = {_key(o): _scaled(M, fac(o)) for o, M in terms.items()}
        return q, (lambda n: [(n, fac(n))])
    if rel == "permute":
        perm = par["perm"]  # new parameter j is old parameter perm[j]
        q["terms"] = {_key(tuple(o[perm[j]] for j in range(k))): M for o, M in terms.items()}

        def back(n):
            old = [0] * k
            for j in range(k):
                old[perm[j]] = n[j]
            return [(tuple(old), 1)]

        return q, back
    if rel == "power":
        w, pw = par["which"], par["p"]
        q["terms"] = {_key(tuple(x * pw if j == w else x for j, x in enumerate(o))): M for o, M in terms.items()}
        q["K"] = K  # same bound on the *new* orders

        def back(n):
            if n[w] % pw:
                return []
            return [(tuple(x // pw if j == w else x for j, x in enumerate(n)), 1)]

        return q, back
    if rel == "merge":
        a, b = par["pair"]
        new_terms = {}
        for o, M in terms.items():
            no = tuple(x for j, x in enumerate(o) if j != b)
            no = tuple(x + o[b] if j == a else x for j, x in enumerate(no))
            new_terms[no] = _added(new_terms[no], M) if no in new_terms else M
        q["n_params"] = k - 1
        q["terms"] = {_key(o): M for o, M in new_terms.items()}

        def back(n):
            res = []
            for x in range(n[a] + 1):
                old = list(n)
                old[a] = x
                old.insert(b, n[a] - x)
                res.append((tuple(old), 1))
            return res

        return q, back
    if rel == "pad":
        pos = par["pos"]
        N = len(p["assign"])
        zero_M = [[[0, 0] for _ in range(N)] for _ in range(N)]
        new_terms = {}
        for o, M in terms.items():
            no = list(o)
            no.insert(pos, 0)
            new_terms[tuple(no)] = M
        e = [0] * (k + 1)
        e[pos] = 1
        new_terms[tuple(e)] = zero_M
        q["n_params"] = k + 1
        q["terms"] = {_key(o): M for o, M in new_terms.items()}

        def back(n):
            if n[pos]:
                return []
            return [(tuple(x for j, x in enumerate(n) if j != pos), 1)]

        return q, back
    if rel == "split":
        # parameter w of the ORIGINAL is the merge of parameters (w, w+1) of the transformed problem:
        # every term containing lambda_w^m (m >= 1) is written with lambda_w -> lambda_w + lambda_{w+1}
        # for first-order terms only (m == 1, pure in w); other terms make the case fall back to a plain split
        # of the first-order term: T = A + B.
        w = par["which"]
        salt = par["salt"]
        e_w = tuple(int(j == w) for j in range(k))
        new_terms = {}
        for o, M in terms.items():
            no = list(o)
            no.insert(w + 1, 0)
            new_terms[tuple(no)] = M
        if e_w in terms and not any(o[w] and o != e_w for o in terms):
            M = terms[e_w]
            N = len(M)
            # A = deterministic pseudo-random integer matrix (Hermitian if the problem is), B = M - A
            cplx = any(e[1] for row in M for e in row)

            def h(tag, i, j):
                return ((salt * 31 + tag * 17 + 7 * i + 13 * j) % 5) - 2

            A = [[[0, 0] for _ in range(N)] for _ in range(N)]
            for i in range(N):
                for j in range(N):
                    if p["hermitian"]:
                        if i > j:
                            continue
                        re, im = h(1, i, j), (h(2, i, j) if cplx and i != j else 0)
                        A[i][j] = [re, im]
                        A[j][i] = [re, -im]
                    else:
                        A[i][j] = [h(1, i, j), h(2, i, j) if cplx else 0]
            B = [[[M[i][j][0] - A[i][j][0], M[i][j][1] - A[i][j][1]] for j in range(N)] for i in range(N)]
            ea = list(e_w)
            ea.insert(w + 1, 0)
            eb = [0] * (k + 1)
            eb[w + 1] = 1
            new_terms[tuple(ea)] = A
            new_terms[tuple(eb)] = B
            q["n_params"] = k + 1
            q["terms"] = {_key(o): M for o, M in new_terms.items()}
            # original(n) = sum over n_w = x + y of transformed(.., x, y, ..): used in the reverse direction
            return q, ("split", w)
        return None, None
    raise AssertionError(rel)


def _as_list(p):
    from vlib.gen_matrix import library_input

    ham, kw = library_input(p)
    if not isinstance(ham, dict):
        return None
    k = p["n_params"]
    units = [tuple(int(i == j) for i in range(k)) for j in range(k)]
    if set(ham) != {(0,) * k, *units}:
        return None
    return [ham[(0,) * k]] + [ham[u] for u in units], kw


def _as_monomial(p):
    import sympy

    from vlib.gen_matrix import library_input

    ham, kw = library_input(p)
    if not isinstance(ham, dict) or not all(isinstance(o, tuple) for o in ham):
        return None
    k = p["n_params"]
    syms = sympy.symbols("a_0:%d" % k)  # the library orders the symbols of monomial keys by name
    used = set()
    out = {}
    for o, M in ham.items():
        mono = sympy.Integer(1)
        for s_, e_ in zip(syms, o):
            mono = mono * s_**e_
            if e_:
                used.add(s_)
        out[mono] = M
    if len(used) != k:
        return None
    return out, kw


def check_case(case, enforce_all=False):
    out = Outcome()
    p = case["problem"]
    out.labels = bd_checks.labels_for(p) + [f"relation={case['relation']}", "mode=hermitian" if p["hermitian"] else "mode=nonhermitian"]
    if case["par"].get("tiny_original"):
        out.labels.append("weak-perturbation-original")
    from props.c05 import in_k1_class

    if not p["hermitian"] and in_k1_class(p):
        out.labels.append("skipped:K1-class")
        out.excluded.append("K1")
        return out
    q, back = transform(case)
    if q is None:
        out.labels.append("skipped:split-not-applicable")
        return out
    in0 = in1 = (None, None)
    if p["repr"] == "sympy" and p["hermitian"] and case["par"].get("as_matrix", True):
        # exact problems are also fed as ONE symbolic matrix, so that the Taylor expansion of the input is part of
        # the relation (merging two parameters = substituting the same symbol)
        from vlib.gen_matrix import matrix_input

        a, b = matrix_input(p), matrix_input(q)
        if a is not None and b is not None:
            in0, in1 = a, b
            out.labels.append("symbolic-matrix-input")
    if in0 == (None, None) and case["par"].get("as_list"):
        # problems whose terms are exactly the k first-order ones are also handed over in list form [H_0, H_1, ..., H_k]
        a, b = _as_list(p), _as_list(q)
        if a is not None and b is not None:
            in0, in1 = a, b
            out.labels.append("list-input")
    if in0 == (None, None) and case["par"].get("as_monomial"):
        a, b = _as_monomial(p), _as_monomial(q)
        if a is not None and b is not None:
            in0, in1 = a, b
            out.labels.append("monomial-key-input")
    ctx0, res0 = mm.outputs(p, out, "original problem", *in0)
    if res0 is None:
        return out
    ctx1, res1 = mm.outputs(q, out, f"transformed problem ({case['relation']})", *in1)
    if res1 is None:
        return out
    if isinstance(back, tuple):  # split: original(n) = sum of transformed over the split parameter pair
        w = back[1]
        for n in ctx0.orders:
            for name, key in mm.NAMES:
                total = mm.zeros_like_ctx(ctx0)
                scale = 1.0
                complete = True
                for x in range(n[w] + 1):
                    m = list(n)
                    m[w] = x
                    m.insert(w + 1, n[w] - x)
                    m = tuple(m)
                    if m not in res1[key]:
                        complete = False
                        break
                    total = total + res1[key][m]
                    scale = max(scale, mm.scale_of(ctx1, res1, m))
                if not complete:
                    continue
                if not mm.compare(ctx0, out, f"split-{name}", f"{name}{list(n)} vs sum over the split parameters", total, res0[key][n], scale):
                    return out
    else:
        for n in ctx1.orders:
            src = back(n)
            if any(sum(o) > ctx0.K for o, _ in src):
                continue
            for name, key in mm.NAMES:
                expected = mm.zeros_like_ctx(ctx1)
                for o, f in src:
                    expected = expected + res0[key][o] * f
                scale = mm.scale_of(ctx1, res1, n)
                if not mm.compare(ctx1, out, f"{case['relation']}-{name}", f"{name}{list(n)} of the transformed problem vs prediction from {src[:3]}", res1[key][n], expected, scale):
                    return out
    multi = max(p["n_params"], q["n_params"]) >= 2 or case["relation"] == "power"
    out.nontrivial = bool(multi and p["K"] >= 2 and any(sum(n) >= 2 and bd_checks.nonzero(res0["U"][n]) for n in ctx0.orders))
    return out
