"""C10 - results are independent of the evaluation order / history; returned values and inputs are never mutated."""
from __future__ import annotations

import copy
import warnings

import numpy as np
from hypothesis import strategies as st

from vlib import bd_checks
from vlib.cauchy import orders_upto
from vlib.gen_matrix import library_input, problems
from vlib.runner import Outcome

ID = "C10"
LEVEL = "exploration"
LEVEL_TEXT = (
    "Model-based generated search over request histories: one generated problem, up to three computations built from "
    "the *same* input objects, and a drawn sequence of operations - single-element requests on any of the three "
    "output series in any order, slice / list requests, repeats, interleaving between computations, creation of a "
    "new computation. After every operation: the returned value equals the reference table (a separate computation "
    "requested once in ascending order) and, for drawn elements, a truly fresh single-request computation; every "
    "value handed out earlier still equals its snapshot; the input arrays, dict and masks equal their snapshots. "
    "Hermitian (plain, full, masked), non-Hermitian, dense / sparse / exact. No proof."
)
LEVEL_NOTE = (
    "Trusted: snapshots by deepcopy, elementwise comparison (bitwise equality expected; <= 1e-11 x magnitude enforced so "
    "that a legitimate change of summation order cannot raise an alarm; exact equality for sympy values). Bounds: "
    "<= 3 computations, <= 25 operations, total order <= 4."
)
TECHNIQUE = "model-based property testing (Hypothesis): operation sequences vs a reference table, snapshot invariants"
BUDGET = {"quick": 700, "thorough": 20000}
SHRINK_SECONDS = {"quick": 40, "thorough": 200}
RULE = (
    "case = (problem, operation list over {get, get_fresh, slice, repeat, new, starved_get, user_product}); problems are explicit (Hermitian / non-Hermitian) or implicit (direct or KPM solver, the latter compared at solver accuracy). Non-trivial = the history requests a "
    "lower order after a higher one on the same computation, requests U or U_inv after H_tilde (intermediates "
    "already consumed), and contains a repeat or a second computation."
)
ASSUMPTIONS = ["the reference table itself comes from the library (ascending requests on a separate computation); correctness of values is C01-C05's job"]
REQUIRED_CLASSES = {"all": ["op:slice", "op:new", "op:repeat", "op:get_fresh", "mode=nonhermitian", "mode=implicit", "repr=sparse", "repr=sympy", "selection=mask", "input=blockseries-data"]}

SERIES = ["H_tilde", "U", "U_inv"]


def strategy(tier):
    herm = problems(tier, hermitian=True, max_K=4)
    nh = problems(tier, hermitian=False, complex_energy=True, max_K=3)

    from props.c06 import _case as implicit_case

    # exact two-parameter problems handed over as ONE symbolic matrix with a mixed monomial of unequal powers (x*y**2):
    # the library Taylor-expands the input lazily, so the expansion itself has a request history
    symm = problems(tier, hermitian=True, reprs=("sympy",), max_N=4, max_blocks=2, max_params=2, forms=("symmatrix",), max_K=3)

    @st.composite
    def cases(draw):
        if draw(st.integers(0, 4)) == 0:
            # implicit mode: 1-2 explicit blocks + the implicit block
            imp = draw(implicit_case(tier))
            if not draw(st.booleans()):
                imp["solver"] = "direct"  # otherwise as drawn: direct, direct + eigenvalue_atol, KPM, KPM + auxiliary vectors
            p = {"implicit": imp, "n_params": imp["n_params"], "blocks": list(imp["sizes"]) + [imp["n"] - sum(imp["sizes"])], "K": imp["K"]}
        elif draw(st.integers(0, 5)) == 0:
            p = draw(symm)
            if p["n_params"] == 2:
                terms = dict(p["terms"])
                first = sorted(s_ for s_ in terms if sum(int(x) for x in s_.split(",")) == 1)
                terms.setdefault("1,2", terms[first[0]])
                terms.setdefault("2,1", terms[first[-1]])
                p = dict(p, terms=terms, K=3)
        else:
            p = draw(st.one_of(herm, herm, nh))
        k, nb, K = p["n_params"], len(p["blocks"]), p["K"]
        orders = orders_upto(k, K)
        ops = []
        for _ in range(draw(st.integers(3, 14 if tier == "quick" else 25))):
            kind = draw(st.sampled_from(["get", "get", "get", "get", "get_fresh", "slice", "repeat", "new", "starved_get", "user_product", "user_product"]))
            comp = draw(st.integers(0, 2))
            if kind in ("get", "get_fresh"):
                ops.append([kind, comp, draw(st.sampled_from(SERIES)), draw(st.integers(0, nb - 1)), draw(st.integers(0, nb - 1))] + list(draw(st.sampled_from(orders))))
            elif kind == "starved_get":
                ops.append(["starved_get", comp, draw(st.sampled_from(SERIES)), draw(st.integers(0, nb - 1)), draw(st.integers(0, nb - 1))] + list(draw(st.sampled_from(orders))) + [draw(st.integers(8, 70))])
            elif kind == "user_product":
                bi = draw(st.integers(0, nb - 1))
                bj = bi if draw(st.booleans()) else draw(st.integers(0, nb - 1))
                big = [o for o in orders if sum(o) >= 2] or orders
                ops.append(["user_product", comp, draw(st.sampled_from([1, 1, 0])), bi, bj] + list(draw(st.sampled_from(big if draw(st.booleans()) else orders))))
            elif kind == "slice":
                n = list(draw(st.sampled_from(orders)))
                ops.append(["slice", comp, draw(st.sampled_from(SERIES)), draw(st.sampled_from(["blocks", "orders", "row"])), draw(st.integers(0, nb - 1))] + n)
            elif kind == "repeat":
                ops.append(["repeat", draw(st.integers(0, 50))])
            else:
                ops.append(["new"])
        if p.get("form") == "symmatrix" and k == 2:
            # a history that reaches the mixed orders through a lower mixed one: (1,1) first, then (1,2) and (2,1)
            name_ = draw(st.sampled_from(["H_tilde", "H_tilde", "U"]))
            bi = draw(st.integers(0, nb - 1))
            bj = bi if name_ == "H_tilde" else draw(st.integers(0, nb - 1))
            ops = [["get", 0, name_, bi, bj, 1, 1], ["get", 0, name_, bi, bj, 1, 2], ["get", 0, name_, bi, bj, 2, 1]] + ops
        return {"problem": p, "ops": ops, "input_form": draw(st.sampled_from(["dict", "dict", "blockseries_data"]))}

    return cases()


def _norm(v):
    """Normalise a returned element for comparison: ('zero'|'one'|'num'|'sym', payload)."""
    import sympy
    from scipy import sparse

    from pymablock.series import one, zero

    if v is zero:
        return ("zero", None)
    if v is one:
        return ("one", None)
    if sparse.issparse(v):
        return ("num", v.toarray())
    from scipy.sparse.linalg import LinearOperator

    if isinstance(v, LinearOperator):
        return ("num", np.asarray(v @ np.eye(v.shape[1])))
    if isinstance(v, sympy.MatrixBase):
        return ("sym", sympy.ImmutableMatrix(v))
    return ("num", np.array(v))


def _same(a, b, tol=1e-11):
    if a[0] != b[0]:
        # a vanishing element may be the sentinel in one history and an explicit zero in another
        arr = a[1] if a[0] in ("num", "sym") else b[1]
        other = b[0] if a[0] in ("num", "sym") else a[0]
        if other == "zero" and arr is not None:
            return (not np.any(arr)) if isinstance(arr, np.ndarray) else arr.is_zero_matrix
        return False
    if a[0] in ("zero", "one"):
        return True
    if a[0] == "sym":
        import sympy

        return a[1].shape == b[1].shape and sympy.simplify(a[1] - b[1]).is_zero_matrix
    x, y = a[1], b[1]
    if x.shape != y.shape:
        return False
    if not (np.all(np.isfinite(x)) and np.all(np.isfinite(y))):
        return False
    return float(np.abs(x - y).max() if x.size else 0.0) <= tol * max(1.0, float(np.abs(y).max() if y.size else 0.0))


def _snapshot_inputs(ham, kwargs):
    return copy.deepcopy({"ham": ham, "kwargs": {k: v for k, v in kwargs.items()}})


def _inputs_equal(snap, ham, kwargs):
    from scipy import sparse

    def eq(a, b):
        if sparse.issparse(a) or sparse.issparse(b):
            return sparse.issparse(a) and sparse.issparse(b) and a.shape == b.shape and (a != b).nnz == 0 and a.dtype == b.dtype
        if isinstance(a, np.ndarray) or isinstance(b, np.ndarray):
            return isinstance(a, np.ndarray) and isinstance(b, np.ndarray) and a.shape == b.shape and a.dtype == b.dtype and np.array_equal(a, b)
        if isinstance(a, dict):
            return isinstance(b, dict) and list(a.keys()) == list(b.keys()) and all(eq(a[k], b[k]) for k in a)
        if isinstance(a, (list, tuple)):
            return type(a) is type(b) and len(a) == len(b) and all(eq(x, y) for x, y in zip(a, b))
        return a == b

    return eq(snap["ham"], ham) and eq(snap["kwargs"], dict(kwargs))


def check_case(case, enforce_all=False):
    from pymablock import block_diagonalize

    out = Outcome()
    p = case["problem"]
    nb, k, K = len(p["blocks"]), p["n_params"], p["K"]
    if "implicit" in p:
        from props.c06 import build_inputs

        B_ = build_inputs(p["implicit"])
        ham = B_["ham"]
        kwargs = dict(B_["kwargs"], subspace_eigenvectors=B_["vec_impl"], **B_["opts"])
        out.labels = ["mode=implicit"] + B_["labels"]
        p = dict(p, repr="dense")
    else:
        out.labels = bd_checks.labels_for(p) + ["mode=hermitian" if p["hermitian"] else "mode=nonhermitian"]
        ham, kwargs = library_input(p)
    data_form = case.get("input_form") == "blockseries_data" and "implicit" not in case["problem"] and p["repr"] == "dense"
    if data_form:
        # the caller builds the Hamiltonian as BlockSeries(data=d) from a dictionary of blocks that it keeps (and reuses
        # for every computation); neither d nor its values may change
        from pymablock.series import BlockSeries
        from vlib.gen_matrix import states_of

        st_ = states_of(p)
        d = {}
        for o, M in ham.items():
            A = M.toarray() if hasattr(M, "toarray") else np.asarray(M)
            for i in range(nb):
                for j in range(nb):
                    blk = A[np.ix_(st_[i], st_[j])]
                    if np.any(blk):
                        d[(i, j) + tuple(o)] = blk.copy()
        ham = d
        kwargs = {k_: v for k_, v in kwargs.items() if k_ != "subspace_indices"}
        out.labels.append("input=blockseries-data")
    snap = _snapshot_inputs(ham, kwargs)
    # Values are compared to 1e-11 (relative) - except with the KPM solver, whose results are only defined up to the
    # requested accuracy and are not even reproducible between two identical runs (the spectral bounds come from ARPACK
    # with a random start vector; observed run-to-run differences ~1e-11 at atol 1e-6): there the comparison uses the
    # same accuracy-based tolerance as C06, and a case with a convergence warning is not judged at all.
    is_kpm = "implicit" in case["problem"] and str(case["problem"]["implicit"].get("solver", "")).startswith("kpm")
    vtol = 1e-11
    kpm_state = {"warned": False}
    if is_kpm:
        vtol = 1e3 * (case["problem"]["implicit"].get("kpm_atol") or 1e-5) * (1 + K) ** 2
        out.labels.append("solver=kpm")

    def _note(wlist):
        if any(issubclass(w.category, RuntimeWarning) and "KPM" in str(w.message) for w in wlist):
            kpm_state["warned"] = True

    def compute(h, kw):
        with warnings.catch_warnings(record=True) as wl:
            warnings.simplefilter("always")
            if data_form:
                h = BlockSeries(data=h, shape=(nb, nb), n_infinite=k, name="H_user")
            res = dict(zip(SERIES, block_diagonalize(h, **kw)))
        _note(wl)
        return res

    def element(series, idx):
        with warnings.catch_warnings(record=True) as wl:
            warnings.simplefilter("always")
            v = series[idx]
        _note(wl)
        return v

    # reference table: separate computation on copies of the inputs, ascending requests
    try:
        ref_comp = compute(*(copy.deepcopy((ham, kwargs))))
        table = {}
        for n in orders_upto(k, K):
            for name in SERIES:
                for i in range(nb):
                    for j in range(nb):
                        table[(name, i, j) + n] = _norm(element(ref_comp[name], (i, j) + n))
        comps = [compute(ham, kwargs)]
    except Exception as exc:  # noqa: BLE001
        out.fail("exception", f"reference computation raised {type(exc).__name__}: {str(exc)[:200]}")
        return out
    handed = []  # (description, live object, snapshot)
    history = []
    flags = {"lower_after_higher": False, "U_after_H": False, "repeat_or_second": False}
    max_seen = {}  # comp -> max total order requested
    h_seen = set()

    def lookup(name, i, j, n):
        return table[(name, i, j) + tuple(n)]

    def do(op):
        kind = op[0]
        if kind in ("get", "get_fresh"):
            _, c, name, i, j, *n = op
            c = c % len(comps)
            n = tuple(n)
            v = element(comps[c][name], (i, j) + n)
            got = _norm(v)
            if not _same(got, lookup(name, i, j, n), vtol):
                return out.fail("history-dependent", f"{name}[{i},{j},{list(n)}] on computation {c} differs from the reference table after {len(history)} operations")
            if kind == "get_fresh":
                out.labels.append("op:get_fresh")
                fresh = compute(*copy.deepcopy((ham, kwargs)))
                if not _same(_norm(element(fresh[name], (i, j) + n)), got, vtol):
                    return out.fail("fresh-differs", f"{name}[{i},{j},{list(n)}] differs from a fresh single-request computation")
            from scipy.sparse.linalg import LinearOperator

            if got[0] in ("num", "sym") and not isinstance(v, LinearOperator):
                handed.append((f"{name}[{i},{j},{list(n)}]@{c}", v, copy.deepcopy(v)))
            if sum(n) < max_seen.get(c, -1):
                flags["lower_after_higher"] = True
            max_seen[c] = max(max_seen.get(c, -1), sum(n))
            if name == "H_tilde" and sum(n) >= 2:
                h_seen.add(c)
            if name != "H_tilde" and c in h_seen:
                flags["U_after_H"] = True
        elif kind == "slice":
            _, c, name, how, b, *n = op
            c = c % len(comps)
            n = tuple(n)
            out.labels.append("op:slice")
            if how == "blocks":
                item = (slice(None), slice(None)) + n
                expect = [[lookup(name, i, j, n) for j in range(nb)] for i in range(nb)]
                res = element(comps[c][name], item)
                cells = [(res[i, j] if not np.ma.is_masked(res[i, j]) else None, expect[i][j]) for i in range(nb) for j in range(nb)]
            elif how == "row":
                item = (b, [jj for jj in range(nb)]) + n
                res = element(comps[c][name], item)
                cells = [(res[j] if not np.ma.is_masked(res[j]) else None, lookup(name, b, j, n)) for j in range(nb)]
            else:
                stop = n[0] + 1
                item = (b, b, slice(0, stop)) + n[1:]
                res = element(comps[c][name], item)
                cells = [(res[q] if not np.ma.is_masked(res[q]) else None, lookup(name, b, b, (q,) + n[1:])) for q in range(stop)]
            from pymablock.series import zero

            for got, exp in cells:
                g = ("zero", None) if got is None else _norm(got)
                if not _same(g, exp, vtol):
                    return out.fail("history-dependent", f"slice {name}{list(map(str, item))} on computation {c} differs from the reference table")
        elif kind == "starved_get":
            # a request that may die of resource exhaustion (RecursionError) part-way through the nested evaluation;
            # whatever happens to it, later requests must be unaffected
            _, c, name, i, j, *rest = op
            n, delta = tuple(rest[:-1]), rest[-1]
            c = c % len(comps)
            if p["repr"] == "sympy":
                return None
            import inspect
            import sys

            old = sys.getrecursionlimit()
            depth = len(inspect.stack(0))
            sys.setrecursionlimit(depth + delta)
            try:
                v = element(comps[c][name], (i, j) + n)
                starved = False
            except Exception as exc:  # noqa: BLE001
                # RecursionError is a RuntimeError and the library re-raises it as RuntimeError; third-party code on the
                # stack may turn it into anything else (scipy's LinearOperator.__matmul__ catches every Exception and
                # raises TypeError), so under starvation no exception type is a violation by itself ...
                starved = True
                if not isinstance(exc, RuntimeError):
                    out.labels.append("starved:converted-by-third-party")
            finally:
                sys.setrecursionlimit(old)
            out.labels.append("op:starved_get")
            if starved:
                out.labels.append("starved")
                flags["repeat_or_second"] = True
                # ... but the same request at the normal limit must now succeed with the undisturbed value (a genuine
                # exception would surface here, outside the try)
                v = element(comps[c][name], (i, j) + n)
                if not _same(_norm(v), lookup(name, i, j, n), vtol):
                    return out.fail("history-dependent", f"{name}[{i},{j},{list(n)}] requested again after dying of a low recursion limit differs from the reference table")
            elif not _same(_norm(v), lookup(name, i, j, n), vtol):
                return out.fail("history-dependent", f"{name}[{i},{j},{list(n)}] (under a low recursion limit) differs from the reference table")
        elif kind == "user_product":
            # the caller forms its own Cauchy product of two returned series (the documented unitarity check U^dagger U,
            # declared hermitian=True in Hermitian mode, where the product is Hermitian) and requests one element of it;
            # this reads cached elements of U and U^dagger and must leave them - and everything computed later - alone
            _, c, herm, i, j, *n = op
            if "implicit" in case["problem"]:
                return None
            from pymablock.series import cauchy_dot_product

            c = c % len(comps)
            prod = cauchy_dot_product(comps[c]["U_inv"], comps[c]["U"], hermitian=bool(herm) and bool(p["hermitian"]))
            element(prod, (i, j) + tuple(n))
            out.labels.append("op:user_product" + (":hermitian" if herm and p["hermitian"] else ""))
            flags["repeat_or_second"] = True
        elif kind == "repeat":
            prev = [h for h in history if h[0] in ("get", "slice")]
            if prev:
                out.labels.append("op:repeat")
                flags["repeat_or_second"] = True
                return do(prev[op[1] % len(prev)])
        elif kind == "new":
            if len(comps) < 3:
                out.labels.append("op:new")
                comps.append(compute(ham, kwargs))
                flags["repeat_or_second"] = True
        return None

    for step, op in enumerate(case["ops"]):
        try:
            do(op)
        except Exception as exc:  # noqa: BLE001
            out.fail("exception", f"operation {step} {op[:6]} raised {type(exc).__name__}: {str(exc)[:200]}")
        if kpm_state["warned"]:
            # the expansion did not converge within max_moments: the library said so, nothing is promised about the values
            out.failures.clear()
            out.labels.append("kpm-convergence-warning")
            return out
        if out.failures:
            return out
        history.append(op)
        for desc, live, snapv in handed:
            if not _same(_norm(live), _norm(snapv)):
                out.fail("returned-value-mutated", f"value {desc} handed out earlier changed after operation {step} {op[:6]}")
                return out
        if not _inputs_equal(snap, ham, kwargs):
            out.fail("input-mutated", f"the caller's input objects changed after operation {step} {op[:6]}")
            return out
    out.nontrivial = all(flags.values())
    out.info["ops"] = len(case["ops"])
    return out
