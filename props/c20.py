"""C20 - ill-posed problems are rejected, never answered with silent garbage; accepted ones are finite."""
from __future__ import annotations

import warnings

import numpy as np
from hypothesis import strategies as st

from vlib import bd_checks
from vlib.cauchy import orders_upto
from vlib.gen_matrix import library_input, order_key, problems, states_of
from vlib.runner import Outcome

ID = "C20"
LEVEL = "exploration"
LEVEL_TEXT = (
    "Generated search: a valid generated problem (any blocks, parameters, value types, Hermitian or not) receives "
    "exactly one injected ill-posedness at a drawn location - off-block-diagonal H_0 entry (upper, lower or both), an "
    "unperturbed energy shared by two coupled blocks, an elimination mask on a degenerate pair, non-(bi)orthonormal "
    "eigenvectors, an asymmetric Hermitian-mode mask, a non-Hermitian symbolic matrix in Hermitian mode, mutually "
    "exclusive options, a vanishing H_0 diagonal. The library must raise ValueError / TypeError / NotImplementedError "
    "at definition or, at the latest, during a full sweep of element requests up to order K; an accepted well-posed "
    "numeric problem must return finite values everywhere. No proof."
)
LEVEL_NOTE = (
    "Trusted: the injection code in props/c20.py. Deviations injected into eigenvectors are >= 1e-3 (the library's "
    "orthonormality test has rtol 1e-5). Shared energies are exactly equal. Bounds as C01."
)
TECHNIQUE = "property-based testing (Hypothesis) with fault-injected inputs; reject-or-be-finite oracle + coverage-guided fuzzing stage (atheris/libFuzzer driving the same strategy and oracle, thorough tier only)"
BUDGET = {"quick": 1500, "thorough": 40000}
FUZZ = {"quick": 0, "thorough": 16000}  # executions of the coverage-guided stage (vlib/fuzz.py)
SHRINK_SECONDS = {"quick": 30, "thorough": 150}
RULE = (
    "case = (problem, injection kind, location/size parameters; for shared energies the directly ill-defined first-order elements must be rejected every time they are asked for). Non-trivial = an injection other than 'none' whose "
    "location is outside block pair (0,1), or sits in a sparse / symbolic value, or in a non-Hermitian problem, or is a "
    "mask/eigenvector/option fault; 'none' cases count when N >= 3 and K >= 3. Distinct = distinct case hash."
)
ASSUMPTIONS = [
    "an off-block-diagonal H_0 entry in a *symbolic* H_0 only triggers the documented UserWarning; such cases are generated numerically only",
    "the sweep requests every block of U and H_tilde at all orders <= K (ascending), so 'no later than the first evaluation that needs it' is implied by 'raised during the sweep'",
]
REQUIRED_CLASSES = {
    "all": ["inject=none", "inject=offdiag_h0", "inject=shared_energy", "inject=mask_degenerate", "inject=nonorthonormal",
            "inject=asymmetric_mask", "inject=nonhermitian_sympy", "inject=exclusive_options", "inject=zero_diagonal", "inject=nonconserving_h0", "inject=nonhermitian_sympy_operators",
            "mode=nonhermitian", "lower-triangle-only", "mask-dict-with-several-blocks", "offdiag-h0-towards-implicit-block"]
}
ALLOWED = (ValueError, TypeError, NotImplementedError)
KINDS = ["none", "offdiag_h0", "offdiag_h0", "shared_energy", "shared_energy", "mask_degenerate", "mask_degenerate", "nonorthonormal",
         "asymmetric_mask", "nonhermitian_sympy", "exclusive_options", "zero_diagonal", "nonconserving_h0", "nonhermitian_sympy_operators"]


def strategy(tier):
    herm = problems(tier, hermitian=True)
    nh = problems(tier, hermitian=False, complex_energy=True, safe_bias=True)

    @st.composite
    def cases(draw):
        p = draw(st.one_of(herm, herm, nh))
        kind = draw(st.sampled_from(KINDS))
        par = {
            "a": draw(st.integers(0, 10**6)),
            "b": draw(st.integers(0, 10**6)),
            "where": draw(st.sampled_from(["lower", "upper", "both"])),
            "size": draw(st.sampled_from([1, 2, -3])),
            "delta": draw(st.sampled_from([1e-3, 1e-2, 0.25])),
            "how": draw(st.sampled_from(["scale", "shrink", "shear", "phase"])),
            "option": draw(st.sampled_from(["vectors+indices", "solver+full", "pairs+hermitian", "kpm+nonhermitian"])),
        }
        return {"problem": p, "inject": kind, "par": par}

    return cases()


def _sweep(H_tilde, U, U_inv, nb, n_params, K):
    """Request every block of every series at all orders <= K; return ('raised', exc) or ('returned', values)."""
    vals = []
    for n in orders_upto(n_params, K):
        for series, name in ((U, "U"), (H_tilde, "H_tilde"), (U_inv, "U_inv")):
            for i in range(nb):
                for j in range(nb):
                    try:
                        with warnings.catch_warnings():
                            warnings.simplefilter("ignore")
                            v = series[(i, j) + n]
                    except Exception as exc:  # noqa: BLE001
                        return "raised", (exc, f"{name}[{i},{j},{list(n)}]", len(vals))
                    vals.append((name, (i, j) + n, v))
    return "returned", vals


def check_case(case, enforce_all=False):
    import sympy
    from scipy import sparse

    from pymablock import block_diagonalize
    from pymablock.series import one, zero

    out = Outcome()
    p = dict(case["problem"])
    kind, par = case["inject"], case["par"]
    out.labels = bd_checks.labels_for(p) + [f"inject={kind}", "mode=hermitian" if p["hermitian"] else "mode=nonhermitian"]
    N = len(p["assign"])
    nb = len(p["blocks"])
    states = states_of(p)
    zero_order = (0,) * p["n_params"]
    must_reject = kind != "none"
    loc_nontrivial = False

    def pick_cross_pair():
        pairs = [(i, j) for i in range(N) for j in range(N) if p["assign"][i] < p["assign"][j]]
        if not pairs:
            return None
        if kind == "offdiag_h0" and par["b"] % 3 == 0:
            pairs = [pr_ for pr_ in pairs if p["assign"][pr_[1]] == nb - 1]
        return pairs[par["a"] % len(pairs)]

    ham = kwargs = None
    if kind == "nonconserving_h0":
        # second-quantised input whose unperturbed part does not conserve particle numbers
        from sympy.physics.quantum import Dagger
        from sympy.physics.quantum.boson import BosonOp
        from sympy.physics.quantum.fermion import FermionOp

        from pymablock.number_ordered_form import NumberOperator

        a, f = BosonOp("a"), FermionOp("f")
        bad = [a + Dagger(a), a**2 + Dagger(a) ** 2, f + Dagger(f), a * Dagger(f) + f * Dagger(a)][par["a"] % 4]
        H0 = NumberOperator(a) + sympy.Rational(3, 2) * NumberOperator(f) + sympy.Rational(par["size"], 4) * bad
        H1 = a * Dagger(f) + f * Dagger(a) + a + Dagger(a)
        form = par["b"] % 5
        good = NumberOperator(a) + sympy.Rational(3, 2) * NumberOperator(f)
        try:
            with warnings.catch_warnings():
                warnings.simplefilter("ignore")
                if form == 3:
                    # the offending term sits on only ONE of the diagonal entries (two blocks)
                    res = block_diagonalize([sympy.Matrix([[good, 0], [0, H0 + 7]]), sympy.Matrix([[0, H1], [H1, 0]])], subspace_indices=[0, 1])
                elif form == 4:
                    # ... or on the first of two entries of a single matrix-valued block
                    res = block_diagonalize([sympy.Matrix([[H0, 0], [0, good + 7]]), sympy.Matrix([[0, H1], [H1, 0]])])
                elif form == 0:
                    res = block_diagonalize([H0, H1])
                elif form == 1:
                    res = block_diagonalize([sympy.Matrix([[H0]]), sympy.Matrix([[H1]])])
                else:
                    res = block_diagonalize([sympy.Matrix([[H0, 0], [0, H0 + 7]]), sympy.Matrix([[0, H1], [H1, 0]])], subspace_indices=[0, 1])
                for n in range(3):
                    res[0][0, 0, n]
                    res[1][0, 0, n]
        except ALLOWED:
            out.labels.append("rejected")
            out.nontrivial = True
            return out
        except Exception as exc:  # noqa: BLE001
            out.fail("wrong-exception-type", f"non-conserving H_0 = {H0}: {type(exc).__name__}: {str(exc)[:200]}")
            return out
        out.fail("accepted-ill-posed", f"a second-quantised H_0 that does not conserve particle numbers was accepted: {H0}")
        return out
    if kind == "nonhermitian_sympy_operators":
        # Hermitian-mode symbolic matrix that contains second-quantised operators (in H_0 and possibly in a Hermitian
        # coupling) next to an operator-free term that is NOT Hermitian
        from sympy.physics.quantum import Dagger
        from sympy.physics.quantum.boson import BosonOp

        a = BosonOp("a")
        g, e = sympy.symbols("g epsilon", real=True)
        wq = sympy.Rational(7, 2)
        na = Dagger(a) * a
        H0 = sympy.Matrix([[na + wq / 2, 0], [0, na - wq / 2]])
        c = par["size"] if par["size"] != 1 else 2
        Vbad = sympy.Matrix([[0, e], [c * e, 0]])
        Vjc = sympy.Matrix([[0, g * a], [g * Dagger(a), 0]])
        with_jc = par["a"] % 2 == 0
        bad_first = par["b"] % 2 == 0
        H = H0 + Vbad + (Vjc if with_jc else sympy.zeros(2))
        syms = ([e, g] if bad_first else [g, e]) if with_jc else [e]
        pos = syms.index(e)
        out.labels.append("operators+bad-c-number-term" + ("+jc" if with_jc else ""))
        try:
            with warnings.catch_warnings():
                warnings.simplefilter("ignore")
                res = block_diagonalize(H, symbols=syms, subspace_indices=[0, 1], hermitian=True)
                for n in range(3):
                    idx = tuple(n if q == pos else 0 for q in range(len(syms)))
                    for series in res:
                        for i in range(2):
                            for j in range(2):
                                series[(i, j) + idx]
        except ALLOWED:
            out.labels.append("rejected")
            out.nontrivial = True
            return out
        except Exception as exc:  # noqa: BLE001
            out.fail("wrong-exception-type", f"non-Hermitian term {Vbad.tolist()} next to operator terms: {type(exc).__name__}: {str(exc)[:200]}")
            return out
        out.fail("accepted-ill-posed", f"Hermitian mode accepted the symbolic Hamiltonian {H.tolist()} whose term in epsilon is not Hermitian, up to order 2 in epsilon")
        return out
    if kind == "shared_energy":
        pr = pick_cross_pair()
        if pr is None:
            out.labels.append("skipped:single-block")
            return out
        i, j = pr
        p["energy"] = list(p["energy"])
        p["eimag"] = list(p["eimag"])
        p["energy"][j], p["eimag"][j] = p["energy"][i], p["eimag"][i]
        # make sure the two levels are coupled at first order of the first parameter
        key = ",".join(str(int(q == 0)) for q in range(p["n_params"]))
        terms = {k: [[list(e) for e in row] for row in M] for k, M in p["terms"].items()}
        M = terms.setdefault(key, [[[0, 0] for _ in range(N)] for _ in range(N)])
        if not any(M[i][j]):
            M[i][j] = [1, 0]
        if p["hermitian"] or not any(M[j][i]):
            M[j][i] = [M[i][j][0], -M[i][j][1]]
        p["terms"] = terms
        inj_blocks = (p["assign"][i], p["assign"][j])
        loc_nontrivial = (p["assign"][i], p["assign"][j]) != (0, 1)
    elif kind == "zero_diagonal":
        p["energy"] = [0] * N
        p["eimag"] = [0] * N
        if p["selection"]["kind"] == "mask":
            p["selection"] = {"kind": "none", "full": [], "masks": {}}
        loc_nontrivial = True
    elif kind == "mask_degenerate":
        b = par["a"] % nb
        if len(states[b]) < 2:
            out.labels.append("skipped:block-too-small")
            return out
        x, y = 0, 1 + par["b"] % (len(states[b]) - 1)
        p["energy"] = list(p["energy"])
        p["eimag"] = list(p["eimag"])
        p["energy"][states[b][y]] = p["energy"][states[b][x]]
        p["eimag"][states[b][y]] = p["eimag"][states[b][x]]
        s = len(states[b])
        mask = [[0] * s for _ in range(s)]
        mask[x][y] = mask[y][x] = 1
        masks = {str(b): mask}
        if nb >= 2 and par["size"] != 1:
            # the dictionary also names other blocks, with masks that eliminate nothing (always legal); the ill-posed
            # entry comes first (size == 2) or last (size == -3) in the dictionary
            others = {str(c): [[0] * len(states[c]) for _ in states[c]] for c in range(nb) if c != b}
            masks = {**masks, **others} if par["size"] == 2 else {**others, **masks}
            out.labels.append("mask-dict-with-several-blocks")
        p["selection"] = {"kind": "mask", "full": [], "masks": masks}
        loc_nontrivial = True
    elif kind == "asymmetric_mask":
        if not p["hermitian"]:
            out.labels.append("skipped:asymmetric-masks-are-legal-in-non-hermitian-mode")
            return out
        b = par["a"] % nb
        if len(states[b]) < 2:
            out.labels.append("skipped:block-too-small")
            return out
        E = list(zip(p["energy"], p["eimag"]))
        cand = [(x, y) for x in range(len(states[b])) for y in range(len(states[b])) if x != y and E[states[b][x]] != E[states[b][y]]]
        if not cand:
            out.labels.append("skipped:block-fully-degenerate")
            return out
        x, y = cand[par["b"] % len(cand)]
        s = len(states[b])
        mask = [[0] * s for _ in range(s)]
        mask[x][y] = 1
        masks = {str(b): mask}
        if nb >= 2 and par["size"] != 1:
            # other blocks get (legal, symmetric) empty masks; the asymmetric entry is the first or the last of the dictionary
            others = {str(c): [[0] * len(states[c]) for _ in states[c]] for c in range(nb) if c != b}
            masks = {**masks, **others} if par["size"] == 2 else {**others, **masks}
            out.labels.append("mask-dict-with-several-blocks")
        p["selection"] = {"kind": "mask", "full": [], "masks": masks}
        loc_nontrivial = True

    if kind == "nonhermitian_sympy":
        if not p["hermitian"]:
            out.labels.append("skipped:needs-hermitian-mode")
            return out
        # symbolic matrix H(lambda) whose first-order term is not Hermitian
        lam = sympy.symbols("lambda_0:%d" % p["n_params"], real=True)
        H = sympy.diag(*[sympy.Rational(e, p["eden"]) for e in p["energy"]])
        bad_done = False
        for k, M in p["terms"].items():
            o = order_key(k)
            T = sympy.Matrix(N, N, lambda a, b: sympy.Rational(M[a][b][0], p["den"]) + sympy.I * sympy.Rational(M[a][b][1], p["den"]))
            if sum(o) == 1 and not bad_done and N >= 2:
                a, b = par["a"] % N, par["b"] % N
                if a == b:
                    b = (a + 1) % N
                T[a, b] = T[a, b] + par["size"]  # breaks Hermiticity of this term
                bad_done = True
            mono = 1
            for s_, e_ in zip(lam, o):
                mono = mono * s_**e_
            H = H + mono * T
        if not bad_done:
            out.labels.append("skipped:no-first-order-term")
            return out
        ham = H
        _, kwargs = library_input(p)
        kwargs["symbols"] = list(lam)
        loc_nontrivial = True
    else:
        try:
            ham, kwargs = library_input(p)
        except Exception as exc:  # noqa: BLE001
            raise AssertionError(f"harness could not build the input: {exc}") from exc

    if kind == "offdiag_h0":
        pr = pick_cross_pair()
        if pr is None or p["repr"] == "sympy":
            out.labels.append("skipped:single-block-or-symbolic")
            return out
        i, j = pr
        h0 = ham[zero_order]
        h0 = h0.toarray() if sparse.issparse(h0) else np.array(h0)
        h0 = h0.astype(complex) if np.iscomplexobj(h0) else h0.astype(float)
        where = par["where"] if not p["hermitian"] else "both"
        v = float(par["size"]) * (par["delta"] if par["a"] % 2 else 1.0)
        if where in ("upper", "both"):
            h0[i, j] = v
        if where in ("lower", "both"):
            h0[j, i] = v
        if where == "lower":
            out.labels.append("lower-triangle-only")
        ham[zero_order] = sparse.csr_array(h0) if p["repr"] == "sparse" else h0
        loc_nontrivial = (p["assign"][i], p["assign"][j]) != (0, 1) or p["repr"] == "sparse" or not p["hermitian"]
        if par["b"] % 3 == 0 and p["assign"][j] == nb - 1:
            # implicit mode: the last block is only known as "the complement of the supplied vectors", which are
            # therefore no longer an invariant subspace of H_0
            from vlib.instrument import implicit_kwargs

            kwargs = implicit_kwargs(p, kwargs)
            out.labels.append("offdiag-h0-towards-implicit-block")
            loc_nontrivial = True
    elif kind == "nonorthonormal":
        if p["repr"] == "sympy":
            eye = sympy.eye(N)
            vecs = [eye[:, s] for s in states]
        else:
            eye = np.eye(N, dtype=complex if not p["hermitian"] else float)
            vecs = [eye[:, s].copy() for s in states]
        b = par["a"] % nb
        col = par["b"] % len(states[b])
        d = par["delta"]
        if p["repr"] == "sympy":
            d = sympy.Rational(1, 4)
            V = vecs[b].as_mutable()
        else:
            V = vecs[b]
        how = par["how"]
        pairs = not p["hermitian"] and (par["where"] != "both" or how == "phase")
        if how == "phase" and not pairs:
            how = "shrink"  # a phase on a single basis V drops out of V^dagger V: only meaningful for (R, L) pairs
        if how == "scale" or (how == "shear" and N < 2):
            V[:, col] = V[:, col] * (1 + d)
        elif how == "shrink":
            V[:, col] = V[:, col] * ((1 - d) if p["repr"] != "sympy" else sympy.Rational(1, 2))
        elif how == "phase":
            V[:, col] = V[:, col] * (-1 if par["b"] % 2 else (sympy.I if p["repr"] == "sympy" else 1j))
        else:
            other = (states[b][col] + 1) % N
            V[other, col] = V[other, col] + d
        vecs[b] = V
        out.labels.append("nonorthonormal=" + how)
        kwargs.pop("subspace_indices", None)
        if pairs:
            # (R, L) pairs: break only one side
            clean = [np.eye(N, dtype=complex)[:, s] for s in states] if p["repr"] != "sympy" else [sympy.eye(N)[:, s] for s in states]
            kwargs["subspace_eigenvectors"] = [(r, l) for r, l in zip(vecs, clean)]
        else:
            kwargs["subspace_eigenvectors"] = vecs
        loc_nontrivial = True
    elif kind == "exclusive_options":
        opt = par["option"]
        eye = np.eye(N)
        if opt == "vectors+indices":
            kwargs["subspace_eigenvectors"] = [eye[:, s] for s in states]
        elif opt == "solver+full":
            kwargs["solve_sylvester"] = lambda Y, index: Y
            kwargs["fully_diagonalize"] = kwargs.get("fully_diagonalize") or (0,)
        elif opt == "pairs+hermitian":
            kwargs.pop("subspace_indices", None)
            kwargs["subspace_eigenvectors"] = [(eye[:, s], eye[:, s]) for s in states]
            kwargs["hermitian"] = True
            kwargs.pop("fully_diagonalize", None) if p["selection"]["kind"] == "mask" and not p["hermitian"] else None
        elif opt == "kpm+nonhermitian":
            if nb < 2 or p["repr"] == "sympy":
                out.labels.append("skipped:needs-two-numeric-blocks")
                return out
            kwargs.pop("subspace_indices", None)
            kwargs.pop("fully_diagonalize", None)
            kwargs["subspace_eigenvectors"] = [eye[:, s] for s in states[:-1]]  # last block implicit
            kwargs["direct_solver"] = False
            kwargs["hermitian"] = False
        out.labels.append("option=" + opt)
        loc_nontrivial = True

    # ---------------------------------------------------------------- run
    try:
        with warnings.catch_warnings():
            warnings.simplefilter("ignore")
            H_tilde, U, U_inv = block_diagonalize(ham, **kwargs)
    except ALLOWED:
        if not must_reject:
            out.fail("rejected-well-posed", "a well-posed problem was rejected at definition")
        out.labels.append("rejected-at-definition")
        out.nontrivial = bool(must_reject and loc_nontrivial)
        return out
    except Exception as exc:  # noqa: BLE001
        out.fail("wrong-exception-type", f"{kind}: block_diagonalize raised {type(exc).__name__}: {str(exc)[:200]}")
        return out
    status, payload = _sweep(H_tilde, U, U_inv, nb, p["n_params"], p["K"])
    if status == "raised":
        exc, where, pos = payload
        if isinstance(exc, ALLOWED):
            if not must_reject:
                out.fail("rejected-well-posed", f"well-posed problem: {where} raised {type(exc).__name__}: {str(exc)[:200]}")
            out.labels.append("rejected-at-evaluation")
            out.nontrivial = bool(must_reject and loc_nontrivial)
            if must_reject and kind == "shared_energy":
                # A rejection is not a one-off.  At higher orders a repeated request may legitimately succeed (once a
                # vanishing factor of a product is cached, its ill-defined partner is not needed any more - observed on the
                # unchanged library), but the first-order elements between the two blocks that share the level ARE the
                # ill-defined Sylvester solution (their right-hand side was made non-zero above): asking for them must
                # fail every time.
                bi, bj = inj_blocks
                e0 = tuple(int(q == 0) for q in range(p["n_params"]))
                for _ in range(3):
                    for a_, b_ in ((bi, bj), (bj, bi)):
                        try:
                            with warnings.catch_warnings():
                                warnings.simplefilter("ignore")
                                U[(a_, b_) + e0]
                        except ALLOWED:
                            continue
                        except Exception as exc2:  # noqa: BLE001
                            out.fail("wrong-exception-type", f"{kind}: repeated request U[{a_},{b_},{list(e0)}] raised {type(exc2).__name__}: {str(exc2)[:200]}")
                            return out
                        out.fail("accepted-after-rejection", f"{kind}: U[{a_},{b_},{list(e0)}] couples two blocks that share an unperturbed energy; it was rejected first and answered with a value when asked again")
                        return out
        else:
            out.fail("wrong-exception-type", f"{kind}: {where} raised {type(exc).__name__}: {str(exc)[:200]}")
        return out
    if must_reject:
        out.fail("accepted-ill-posed", f"{kind} {_short(par, kind)}: every element up to order {p['K']} was returned without an error")
        return out
    # well-posed: everything finite
    for name, idx, v in payload:
        if v is zero or v is one:
            continue
        if sparse.issparse(v):
            v = v.toarray()
        if isinstance(v, sympy.MatrixBase):
            if v.has(sympy.nan, sympy.zoo, sympy.oo):
                out.fail("nonfinite", f"{name}{list(idx)} contains nan/zoo/oo")
                return out
            continue
        if not np.all(np.isfinite(np.asarray(v, dtype=complex))):
            out.fail("nonfinite", f"{name}{list(idx)} contains NaN/inf")
            return out
    out.nontrivial = bool(N >= 3 and p["K"] >= 3)
    return out


def _short(par, kind):
    keys = {"offdiag_h0": ["a", "where", "size", "delta"], "nonorthonormal": ["a", "b", "how", "delta", "where"], "exclusive_options": ["option"]}.get(kind, ["a", "b"])
    return {k: par[k] for k in keys}
