"""Exact Gaussian rationals for the oracle side (no sympy involved in the arithmetic)."""
from __future__ import annotations

from fractions import Fraction

import numpy as np


class GQ:
    """a + b i with a, b rational."""

    __slots__ = ("re", "im")

    def __init__(self, re=0, im=0):
        self.re = Fraction(re)
        self.im = Fraction(im)

    @staticmethod
    def of(x):
        if isinstance(x, GQ):
            return x
        if isinstance(x, complex):
            return GQ(Fraction(x.real), Fraction(x.imag))
        return GQ(Fraction(x))

    def __add__(self, o):
        if isinstance(o, np.ndarray):
            return NotImplemented
        o = GQ.of(o)
        return GQ(self.re + o.re, self.im + o.im)

    __radd__ = __add__

    def __neg__(self):
        return GQ(-self.re, -self.im)

    def __sub__(self, o):
        if isinstance(o, np.ndarray):
            return NotImplemented
        o = GQ.of(o)
        return GQ(self.re - o.re, self.im - o.im)

    def __rsub__(self, o):
        if isinstance(o, np.ndarray):
            return NotImplemented
        return GQ.of(o) - self

    def __mul__(self, o):
        if isinstance(o, np.ndarray):
            return NotImplemented
        o = GQ.of(o)
        return GQ(self.re * o.re - self.im * o.im, self.re * o.im + self.im * o.re)

    __rmul__ = __mul__

    def __truediv__(self, o):
        if isinstance(o, np.ndarray):
            return NotImplemented
        o = GQ.of(o)
        d = o.re * o.re + o.im * o.im
        return GQ((self.re * o.re + self.im * o.im) / d, (self.im * o.re - self.re * o.im) / d)

    def __rtruediv__(self, o):
        if isinstance(o, np.ndarray):
            return NotImplemented
        return GQ.of(o) / self

    def conjugate(self):
        return GQ(self.re, -self.im)

    def __eq__(self, o):
        try:
            o = GQ.of(o)
        except Exception:  # noqa: BLE001
            return NotImplemented
        return self.re == o.re and self.im == o.im

    def __hash__(self):
        return hash((self.re, self.im))

    def __bool__(self):
        return bool(self.re) or bool(self.im)

    def __abs__(self):
        return float(self.re * self.re + self.im * self.im) ** 0.5

    def __complex__(self):
        return complex(float(self.re), float(self.im))

    def __repr__(self):
        if self.im == 0:
            return str(self.re)
        return f"({self.re}{'+' if self.im >= 0 else '-'}{abs(self.im)}j)"


def garray(a):
    """Object array of GQ from nested numbers / GQ."""
    a = np.asarray(a, dtype=object)
    out = np.empty(a.shape, dtype=object)
    for idx in np.ndindex(a.shape):
        out[idx] = GQ.of(a[idx])
    return out


def gzeros(shape):
    out = np.empty(shape, dtype=object)
    for idx in np.ndindex(out.shape):
        out[idx] = GQ(0)
    return out


def geye(n):
    out = gzeros((n, n))
    for i in range(n):
        out[i, i] = GQ(1)
    return out


def from_sympy(x):
    """sympy number (rational real and imaginary parts) -> GQ; raises if not a Gaussian rational."""
    import sympy

    x = sympy.nsimplify(sympy.expand(x), rational=True) if not getattr(x, "is_Rational", False) else x
    re, im = sympy.re(x), sympy.im(x)
    if not (re.is_Rational and im.is_Rational):
        re, im = sympy.nsimplify(sympy.simplify(re)), sympy.nsimplify(sympy.simplify(im))
    if not (re.is_Rational and im.is_Rational):
        raise ValueError(f"not a Gaussian rational: {x}")
    return GQ(Fraction(int(re.p), int(re.q)), Fraction(int(im.p), int(im.q)))


def to_sympy(g):
    import sympy

    g = GQ.of(g)
    return sympy.Rational(g.re.numerator, g.re.denominator) + sympy.I * sympy.Rational(g.im.numerator, g.im.denominator)


def to_complex(a):
    a = np.asarray(a, dtype=object)
    out = np.empty(a.shape, dtype=complex)
    for idx in np.ndindex(a.shape):
        out[idx] = complex(a[idx])
    return out
