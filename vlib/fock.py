"""Independent matrix model of the boson / ladder / spin-1/2 / fermion operator algebra.

Basis = occupation tuples.  Boson modes are truncated at ``cutoff`` and use the *unnormalised* basis
a^dagger|n) = |n+1),  a|n) = n |n-1)  (all matrix elements are integers; adjoints use the metric diag(n!)).
Ladder modes live on [-cutoff, cutoff] with l|n) = |n-1).  Spin-1/2 and fermion modes are two-dimensional;
fermions carry Jordan-Wigner signs among themselves; spins commute with everything else.

Products are exact on input states that are far enough from the truncation edge (``safe(margin)``).
A number-ordered term (powers, coeff) denotes   creators (ascending mode order) . coeff(N) . annihilators
(descending mode order) - the convention documented by NumberOrderedForm.as_expr.
"""
from __future__ import annotations

import itertools
import math

import numpy as np


def make_ops(modes):
    """modes: list of [kind, name] with kind in b (boson), l (ladder), s (spin), f (fermion) -> annihilation generators
    sorted the way the library sorts them (bosons, ladders, spins, fermions; by name)."""
    from sympy.physics.quantum import pauli
    from sympy.physics.quantum.boson import BosonOp
    from sympy.physics.quantum.fermion import FermionOp

    from pymablock.number_ordered_form import LadderOp

    order = {"b": 0, "l": 1, "s": 2, "f": 3}
    out = []
    for kind, name in sorted(modes, key=lambda m: (order[m[0]], m[1])):
        out.append({"b": BosonOp, "l": LadderOp, "s": pauli.SigmaMinus, "f": FermionOp}[kind](name))
    return out


class Space:
    def __init__(self, ops, cutoff=6):
        from sympy.physics.quantum import pauli
        from sympy.physics.quantum.boson import BosonOp
        from sympy.physics.quantum.fermion import FermionOp

        from pymablock.number_ordered_form import LadderOp, NumberOperator

        self.ops = list(ops)
        self.cutoff = cutoff
        self.kinds = []
        for op in self.ops:
            self.kinds.append("b" if isinstance(op, BosonOp) else "l" if isinstance(op, LadderOp) else "f" if isinstance(op, FermionOp) else "s")
        self.dims = [cutoff + 1 if k == "b" else 2 * cutoff + 1 if k == "l" else 2 for k in self.kinds]
        self.states = list(itertools.product(*[range(d) for d in self.dims]))
        self.index = {s: i for i, s in enumerate(self.states)}
        self.D = len(self.states)
        self.numbers = [NumberOperator(o) for o in self.ops]
        self._ann = [self._lower(k) for k in range(len(self.ops))]
        self._cre = [self._raise(k) for k in range(len(self.ops))]
        self._occ = np.array([self.occ(s) for s in self.states], dtype=float).reshape(self.D, len(self.ops))
        # metric of the unnormalised boson basis: <n|n> = n!
        self.metric = np.array([math.prod(math.factorial(n) for n, k in zip(s, self.kinds) if k == "b") for s in self.states], dtype=float)
        self.pauli = pauli

    def occ(self, s):
        return tuple((n - self.cutoff) if k == "l" else n for n, k in zip(s, self.kinds))

    def _jw(self, s, k):
        return (-1) ** sum(s[q] for q in range(k) if self.kinds[q] == "f")

    def _lower(self, k):
        M = np.zeros((self.D, self.D))
        kind = self.kinds[k]
        for s, i in self.index.items():
            n = s[k]
            if n == 0:
                continue
            t = list(s)
            t[k] = n - 1
            j = self.index[tuple(t)]
            amp = float(n) if kind == "b" else 1.0
            if kind == "f":
                amp = self._jw(s, k)
            M[j, i] = amp
        return M

    def _raise(self, k):
        M = np.zeros((self.D, self.D))
        kind = self.kinds[k]
        for s, i in self.index.items():
            n = s[k]
            if n + 1 >= self.dims[k]:
                continue
            t = list(s)
            t[k] = n + 1
            j = self.index[tuple(t)]
            amp = 1.0
            if kind == "f":
                amp = self._jw(s, k)
            M[j, i] = amp
        return M

    def annihilator(self, k):
        return self._ann[k]

    def creator(self, k):
        return self._cre[k]

    def number(self, k):
        return np.diag(self._occ[:, k])

    def adjoint(self, M):
        """Adjoint with respect to the metric of the unnormalised basis."""
        g = self.metric
        return (M.conj().T * g[None, :]) / g[:, None]

    def identity(self):
        return np.eye(self.D)

    def mode_index(self, op):
        """Index of the mode a (creation / annihilation / sigma) operator acts on."""
        from sympy.physics.quantum import Dagger

        for k, o in enumerate(self.ops):
            if op == o or Dagger(op) == o:
                return k
            if self.kinds[k] == "s" and getattr(op, "name", None) == o.name and type(op).__module__ == type(o).__module__:
                return k
        raise KeyError(op)

    # ------------------------------------------------------------------ sympy expression -> matrix
    def diag_function(self, expr, symbols_to_mode):
        """Diagonal matrix of a commutative function of number operators / placeholders."""
        import sympy

        syms = list(symbols_to_mode)
        if not syms:
            return complex(expr) * np.eye(self.D)
        f = sympy.lambdify(syms, expr, modules="math")
        vals = np.zeros(self.D, dtype=complex)
        cols = [symbols_to_mode[s] for s in syms]
        for r in range(self.D):
            try:
                vals[r] = f(*[int(self._occ[r, c]) for c in cols])
            except ZeroDivisionError:
                vals[r] = np.nan
        return np.diag(vals)

    def expr_matrix(self, expr):
        import sympy
        from sympy.physics.quantum import Dagger
        from sympy.physics.quantum.boson import BosonOp
        from sympy.physics.quantum.fermion import FermionOp

        from pymablock.number_ordered_form import LadderOp, NumberOperator

        pauli = self.pauli
        expr = sympy.sympify(expr)
        if isinstance(expr, (BosonOp, FermionOp, LadderOp)):
            k = self.mode_index(expr)
            return self._ann[k] if expr.is_annihilation else self._cre[k]
        if isinstance(expr, pauli.SigmaMinus):
            return self._ann[self.mode_index(expr)]
        if isinstance(expr, pauli.SigmaPlus):
            return self._cre[self.mode_index(expr)]
        if isinstance(expr, (pauli.SigmaX, pauli.SigmaY, pauli.SigmaZ)):
            k = self.mode_index(expr)
            lo, hi = self._ann[k], self._cre[k]
            if isinstance(expr, pauli.SigmaX):
                return lo + hi
            if isinstance(expr, pauli.SigmaY):
                return 1j * lo - 1j * hi
            return 2 * self.number(k) - np.eye(self.D)
        if isinstance(expr, NumberOperator):
            return self.number(self.numbers.index(expr))
        if expr.is_Add:
            return sum(self.expr_matrix(a) for a in expr.args)
        if expr.is_Mul:
            M = np.eye(self.D, dtype=complex)
            for a in expr.args:
                M = M @ self.expr_matrix(a)
            return M
        atoms = expr.atoms(BosonOp, FermionOp, LadderOp, pauli.SigmaMinus, pauli.SigmaPlus, pauli.SigmaX, pauli.SigmaY, pauli.SigmaZ)
        if expr.is_Pow and atoms:
            if expr.exp.is_Integer and expr.exp > 0:
                return np.linalg.matrix_power(self.expr_matrix(expr.base), int(expr.exp))
            raise ValueError(f"cannot evaluate {expr}")
        if isinstance(expr, Dagger):
            return self.adjoint(self.expr_matrix(expr.args[0]))
        # commutative scalar, or a function of number operators only
        nums = sorted(expr.atoms(NumberOperator), key=str)
        if not nums:
            return complex(expr) * np.eye(self.D)
        reps = {n: sympy.Symbol(f"_n{self.numbers.index(n)}") for n in nums}
        return self.diag_function(expr.xreplace(reps), {reps[n]: self.numbers.index(n) for n in nums})

    # ----------------------------------------------------------------------- NOF -> matrix
    def nof_matrix(self, nof):
        """Evaluate a NumberOrderedForm term by term: creators . coeff(N) . annihilators.

        The coefficient is evaluated at the occupation *after* the annihilators have acted and only where the
        amplitude is non-zero (a physical zero must not become 0 * inf).  Number-operator placeholders of *all* modes
        of the space are substituted, not only those of the form's own operator list.
        """
        import sympy

        from pymablock.number_ordered_form import NumberOrderedForm, _number_operator_to_placeholder

        if not isinstance(nof, NumberOrderedForm):
            nof = NumberOrderedForm.from_expr(sympy.sympify(nof))
        idx = [self.ops.index(o) for o in nof.operators]
        placeholders = {_number_operator_to_placeholder(n): k for k, n in enumerate(self.numbers)}
        M = np.zeros((self.D, self.D), dtype=complex)
        for powers, coeff in nof.args[1]:
            A = np.eye(self.D)
            for k, p in zip(reversed(idx), reversed(powers)):
                if p > 0:
                    A = A @ np.linalg.matrix_power(self._ann[k], int(p))
            coeff = sympy.sympify(coeff).xreplace({n: _number_operator_to_placeholder(n) for n in self.numbers})
            free = [s for s in coeff.free_symbols]
            unknown = [s for s in free if s not in placeholders]
            if unknown:
                coeff = coeff.subs({s: 1 for s in unknown})  # perturbation symbols of sympy-Matrix input: lambda -> 1
                free = [s for s in free if s in placeholders]
            if free:
                f = sympy.lambdify(free, coeff, modules="math")
                cols = [placeholders[s] for s in free]
                rows_used = np.flatnonzero(np.abs(A).sum(axis=1))
                vals = np.zeros(self.D, dtype=complex)
                for r in rows_used:
                    try:
                        vals[r] = f(*[int(self._occ[r, c]) for c in cols])
                    except ZeroDivisionError:
                        vals[r] = np.nan
                # (entry by entry: a pole of the coefficient at an occupation the amplitude never reaches must not turn
                # the zeros of that row into nan)
                T = np.zeros(A.shape, dtype=complex)
                nz = A != 0
                T[nz] = np.broadcast_to(vals[:, None], A.shape)[nz] * A[nz]
            else:
                T = complex(coeff) * A
            for k, p in zip(reversed(idx), reversed(powers)):
                if p < 0:
                    T = np.linalg.matrix_power(self._cre[k], int(-p)) @ T
            M = M + T
        return M

    def safe(self, margin):
        """Indices of input states on which products of up to ``margin`` ladder-type operators are exact."""
        out = []
        for s, i in self.index.items():
            ok = True
            for n, k in zip(s, self.kinds):
                if k == "b" and n > self.cutoff - margin:
                    ok = False
                if k == "l" and abs(n - self.cutoff) > self.cutoff - margin:
                    ok = False
            if ok:
                out.append(i)
        return np.array(out, dtype=int)
