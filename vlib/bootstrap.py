"""Import plumbing shared by every check.

* puts the repository under test first on ``sys.path`` (``VERIF_REPO`` or ``/repo``)
  and verifies that ``pymablock`` is really imported from there, so a check always
  exercises the *current working tree* (pymablock is pure Python: "rebuild" = fresh
  import in a fresh process);
* makes ``hypothesis`` importable (from /venv, or from ``/verif/.deps`` where
  ``setup.sh`` installs it offline when /venv lacks it).
"""
from __future__ import annotations

import os
import sys
import warnings

VERIF_DIR = os.path.dirname(os.path.dirname(os.path.abspath(__file__)))
REPO_DIR = os.path.abspath(os.environ.get("VERIF_REPO", "/repo"))
GUARD = "PYMABLOCK_VERIF"


class HarnessError(Exception):
    """A failure of the verification machinery itself (never a property violation)."""


def setup() -> None:
    deps = os.path.join(VERIF_DIR, ".deps")
    if os.path.isdir(deps) and deps not in sys.path:
        sys.path.append(deps)
    if VERIF_DIR not in sys.path:
        sys.path.insert(0, VERIF_DIR)
    # repository first
    while REPO_DIR in sys.path:
        sys.path.remove(REPO_DIR)
    sys.path.insert(0, REPO_DIR)
    os.environ.setdefault(GUARD, "1")
    for name in list(sys.modules):
        if name == "pymablock" or name.startswith("pymablock."):
            raise HarnessError("pymablock imported before bootstrap.setup()")
    with warnings.catch_warnings():
        warnings.simplefilter("ignore")
        import pymablock  # noqa: F401

    origin = os.path.abspath(pymablock.__file__)
    if not origin.startswith(REPO_DIR + os.sep):
        raise HarnessError(f"pymablock imported from {origin}, expected under {REPO_DIR}")
    try:
        import hypothesis  # noqa: F401
    except ImportError as exc:  # pragma: no cover
        raise HarnessError("hypothesis is not importable; run ./setup.sh") from exc
