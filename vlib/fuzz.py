"""Coverage-guided layer: atheris (libFuzzer) drives the *same* Hypothesis strategy and the same oracle.

``hypothesis`` exposes ``test.hypothesis.fuzz_one_input(bytes)``: the byte string replaces Hypothesis's own
source of randomness, so libFuzzer's mutations + the edge coverage of the instrumented ``pymablock`` package steer
the structured generator towards library branches the purely random search reaches rarely.  The oracle is the
property module's ``check_case`` -- a crash is *not* what is looked for; a failing sub-assertion is.

One fresh process per shard (``-seed`` derived from VERIF_SEED, a small seed-derived starting corpus in a scratch directory that is removed
afterwards, ``-runs`` bounds the campaign by executions, never by wall time).  libFuzzer leaves through ``_exit``,
so the statistics are flushed from inside the target.  A failing input is not kept as bytes: the generated *case*
(JSON) is the replay unit, exactly as for the Hypothesis stage, and goes through the same replay path.
"""
from __future__ import annotations

import json
import os
import re
import shutil
import subprocess
import sys
import tempfile
import traceback

from . import bootstrap
from .bootstrap import VERIF_DIR, HarnessError


def available() -> bool:
    deps = os.path.join(VERIF_DIR, ".deps")
    if os.path.isdir(deps) and deps not in sys.path:
        sys.path.append(deps)
    try:
        import atheris  # noqa: F401
    except Exception:
        return False
    return True


def _fix_bytestring_provider():
    """hypothesis 6.168: BytestringProvider.draw_integer compares the raw bit pattern (0 .. 2^bits-1) with
    [min_value, max_value] without adding min_value, so integers(8, 14) can never be drawn (the input is rejected as an
    overrun) and integers(1, 4) never yields 4.  Replace it, in the fuzz worker only, by offset + rejection."""
    from hypothesis.internal.conjecture import providers

    def draw_integer(self, min_value=None, max_value=None, *, weights=None, shrink_towards=0):
        if min_value is None and max_value is None:
            min_value, max_value = -(2**127), 2**127 - 1
        elif min_value is None:
            min_value = max_value - 2**64
        elif max_value is None:
            max_value = min_value + 2**64
        if min_value == max_value:
            return min_value
        span = max_value - min_value
        bits = span.bit_length()
        value = self._draw_bits(bits)
        while value > span:
            value = self._draw_bits(bits)
        return min_value + value

    providers.BytestringProvider.draw_integer = draw_integer


def fuzz_worker(prop, tier, seed, widx, runs, outfile, corpus):
    from .runner import canonical, case_hash, derive_seed, load_module

    deps = os.path.join(VERIF_DIR, ".deps")
    if os.path.isdir(deps) and deps not in sys.path:
        sys.path.append(deps)
    import atheris

    with atheris.instrument_imports(include=["pymablock"], enable_loader_override=False):
        bootstrap.setup()
        mod = load_module(prop)
    from hypothesis import HealthCheck, given, settings

    _fix_bytestring_provider()
    stats = {
        "executions": 0,
        "evaluations": 0,
        "nontrivial": {},
        "labels": {},
        "failures": {},
        "error": None,
        "done": False,
    }

    def flush():
        tmp = outfile + ".tmp"
        with open(tmp, "w") as fh:
            json.dump(stats, fh, default=str)
        os.replace(tmp, outfile)

    @settings(database=None, deadline=None, suppress_health_check=list(HealthCheck), print_blob=False)
    @given(mod.strategy(tier))
    def test(case):
        out = mod.check_case(case)
        stats["evaluations"] += 1
        for lab in set(out.labels):
            stats["labels"][lab] = stats["labels"].get(lab, 0) + 1
        if out.nontrivial:
            stats["nontrivial"][case_hash(case)] = 1
        for f in out.failures:
            rec = stats["failures"].setdefault(f.sig, {"case": case, "message": f.message, "details": f.details, "count": 0})
            rec["count"] += 1
            if len(canonical(case)) < len(canonical(rec["case"])):
                rec.update(case=case, message=f.message, details=f.details)

    fuzz_one = test.hypothesis.fuzz_one_input

    def one_input(data):
        stats["executions"] += 1
        try:
            fuzz_one(data)
        except BaseException as exc:  # harness problem inside strategy / oracle: stop the campaign, report it
            if isinstance(exc, (KeyboardInterrupt, SystemExit)):
                raise
            stats["error"] = "".join(traceback.format_exception(type(exc), exc, exc.__traceback__))[-6000:]
            flush()
            os._exit(3)
        n = stats["executions"]
        if n >= runs:
            stats["done"] = True
        if stats["done"] or n % 100 == 0:
            flush()

    lf_seed = derive_seed(seed, prop, widx, "atheris") % (2**31 - 2) + 1
    # Starting corpus: a handful of pseudo-random byte strings of graded lengths (a pure function of the seed).  With
    # a completely empty corpus libFuzzer starts from inputs of a few bytes, which the larger strategies reject as
    # "ran out of data" before any library code runs, so there is no coverage gradient to grow them.
    import hashlib

    for k in range(12):
        n = 64 << (k % 6)
        blob = b"".join(hashlib.sha256(f"{lf_seed}:{k}:{i}".encode()).digest() for i in range(n // 32))
        if k >= 6:  # low-entropy variant: small draws, short collections
            blob = bytes(b % 4 if i % 3 else b for i, b in enumerate(blob))
        with open(os.path.join(corpus, f"start{k:02d}"), "wb") as fh:
            fh.write(blob)
    argv = [sys.argv[0], f"-runs={runs}", f"-seed={lf_seed}", "-max_len=8192", "-len_control=0", "-timeout=3600", f"-artifact_prefix={os.path.dirname(outfile)}/",
            "-rss_limit_mb=0", "-print_final_stats=1", corpus]
    atheris.Setup(argv, one_input)
    atheris.Fuzz()


def run_fuzz(prop, tier, seed, n_workers, runs):
    """Run the campaign shards in parallel; return merged statistics."""
    tmp = tempfile.mkdtemp(prefix=f"verif_fuzz_{prop}_")
    try:
        procs = []
        per = [runs // n_workers + (1 if w < runs % n_workers else 0) for w in range(n_workers)]
        env = dict(os.environ)
        env["PYTHONHASHSEED"] = "0"
        for k in ("OMP_NUM_THREADS", "OPENBLAS_NUM_THREADS", "MKL_NUM_THREADS"):
            env.setdefault(k, "1")
        for w in range(n_workers):
            if per[w] == 0:
                continue
            out = os.path.join(tmp, f"f{w}.json")
            corpus = os.path.join(tmp, f"corpus{w}")
            os.makedirs(corpus)
            args = [sys.executable, "-m", "vlib.runner", "--fuzz-worker", json.dumps([prop, tier, seed, w, per[w], out, corpus])]
            procs.append((w, out, subprocess.Popen(args, cwd=VERIF_DIR, env=env, stdout=subprocess.PIPE, stderr=subprocess.STDOUT)))
        m = {"executions": 0, "evaluations": 0, "nontrivial": set(), "labels": {}, "failures": {}, "edges": 0, "features": 0,
             "corpus_units": 0, "shards": 0}
        for w, out, p in procs:
            log = p.communicate()[0].decode(errors="replace")
            if not os.path.exists(out):
                raise HarnessError(f"fuzz worker {w} died (rc={p.returncode}):\n{log[-3000:]}")
            st = json.load(open(out))
            if st["error"]:
                raise HarnessError(f"fuzz worker {w} harness error:\n{st['error']}")
            if not st["done"]:
                raise HarnessError(f"fuzz worker {w} stopped early (rc={p.returncode}):\n{log[-3000:]}")
            m["shards"] += 1
            m["executions"] += st["executions"]
            m["evaluations"] += st["evaluations"]
            m["nontrivial"].update(st["nontrivial"])
            for k, v in st["labels"].items():
                m["labels"][k] = m["labels"].get(k, 0) + v
            for sig, rec in st["failures"].items():
                cur = m["failures"].get(sig)
                if cur is None:
                    m["failures"][sig] = rec
                else:
                    cur["count"] += rec["count"]
                    if len(json.dumps(rec["case"])) < len(json.dumps(cur["case"])):
                        cur.update(case=rec["case"], message=rec["message"], details=rec["details"])
            cov = re.findall(r"cov: (\d+) ft: (\d+) corp: (\d+)", log)
            if cov:
                m["edges"] = max(m["edges"], int(cov[-1][0]))
                m["features"] = max(m["features"], int(cov[-1][1]))
                m["corpus_units"] += int(cov[-1][2])
        return m
    finally:
        shutil.rmtree(tmp, ignore_errors=True)
