"""Problem generator for the matrix (numeric / exact) block-diagonalisation properties.

A *problem* is a JSON-serialisable dict

  blocks      : list of block sizes (N = sum)
  assign      : block index of every basis state (len N) - states may be interleaved
  energy      : H_0 diagonal, integers over ``eden`` (cross-block gaps >= 2, in-block either
                exactly equal or >= 1/4 apart: nothing is tolerance-ambiguous)
  eden        : energy denominator (4)
  n_params    : number of perturbation parameters
  terms       : {"1,0": [[ [re, im], ...], ...]}  integer numerators over ``den``
  den         : entry denominator (1, 2 or 4: floats are exact)
  hermitian   : bool (terms Hermitian by construction if True)
  selection   : {"kind": "none"|"full"|"mask", "full": [blocks], "masks": {"b": [[0/1]]}}
  repr        : "dense" | "sparse" | "sympy" (exact arithmetic)
  K           : maximal total order to check
"""
from __future__ import annotations

import itertools
from fractions import Fraction

import numpy as np
from hypothesis import strategies as st

from .bootstrap import HarnessError
from .exact import GQ, garray, gzeros


# ------------------------------------------------------------------------- strategy
@st.composite
def problems(
    draw,
    tier="quick",
    hermitian=True,
    max_blocks=4,
    max_block_size=3,
    max_N=7,
    reprs=("dense", "dense", "sparse", "sympy"),
    max_params=3,
    selections=("none", "none", "full", "mask", "mask"),
    complex_energy=False,
    max_K=None,
    safe_bias=False,
    min_blocks=1,
    min_K=2,
    forms=None,
):
    n_blocks = draw(st.integers(min_blocks, max_blocks))
    blocks = []
    for _ in range(n_blocks):
        room = max_N - sum(blocks) - (n_blocks - len(blocks) - 1)
        blocks.append(draw(st.integers(1, max(1, min(max_block_size, room)))))
    N = sum(blocks)
    rep = draw(st.sampled_from(reprs))
    if rep == "sympy":
        # exact arithmetic is expensive: small systems only
        while sum(blocks) > 4:
            blocks[blocks.index(max(blocks))] -= 1
        N = sum(blocks)
    n_params = draw(st.integers(1, max_params))
    eden = 4
    # "far offset" class: all levels sit on a large offset (4096) and some in-block gaps are 1/32, i.e. far above
    # atol = 1e-12 but below numpy.isclose's default relative tolerance 1e-5 * |E|: such levels are *distinct* for the
    # library (it compares in-block levels with the absolute tolerance) and every number is still exactly representable.
    far = draw(st.integers(0, 5)) == 0
    unit = 8 if far else 1  # energies are integers over eden; in the far class eden = 32
    if far:
        eden = 32
    # integer-dtype class: H_0 and all terms are passed as integer arrays (dense or sparse)
    int_dtype = (not far) and rep != "sympy" and draw(st.integers(0, 5)) == 0
    if int_dtype:
        eden = 1
    # --- spectrum, by construction
    base = 0
    offset = draw(st.integers(-12, 12)) * unit + (4096 * 32 if far else 0)
    energy_by_block = []
    for b, s in enumerate(blocks):
        pattern = draw(st.sampled_from(["equal", "partly", "distinct"]))
        if pattern == "equal" or s == 1:
            rel = [0] * s
        elif pattern == "distinct":
            gaps = [draw(st.sampled_from([1, 1, 8, 16])) if far else draw(st.integers(1, 3)) for _ in range(s - 1)]
            rel = [0] + list(itertools.accumulate(gaps))
        else:
            gaps = [draw(st.sampled_from([0, 1, 8])) if far else draw(st.integers(0, 2)) for _ in range(s - 1)]
            rel = [0] + list(itertools.accumulate(gaps))
        rel = draw(st.permutations(rel))
        energy_by_block.append([base + r for r in rel])
        base += max(rel) + draw(st.integers(8, 14)) * unit  # cross-block gap >= 2 (8 units of 1/4)
    imag_rel_by_block = [[0] * s for s in blocks]
    if not hermitian and complex_energy:
        # complex energies: rotate block bases into the complex plane, keeping |gap| >= 2
        imag_by_block = [draw(st.integers(-8, 8)) * unit for _ in blocks]
        # ... and, for some blocks, the gaps INSIDE the block as well: its levels then share the real part and differ
        # along the imaginary axis (E_i - E_j purely imaginary)
        for b, s in enumerate(blocks):
            if s >= 2 and draw(st.integers(0, 2)) == 0:
                lo = min(energy_by_block[b])
                imag_rel_by_block[b] = [e - lo for e in energy_by_block[b]]
                energy_by_block[b] = [lo] * s
    else:
        imag_by_block = [0] * n_blocks
    # "pinned" class: a drawn block (any position, not only the lowest one) has its first level at exactly zero, so a
    # block with equal levels becomes an identically vanishing H_0 block (which the library represents by a scalar 0)
    if not far and draw(st.integers(0, 4)) == 0:
        b0 = draw(st.integers(0, n_blocks - 1))
        offset = -energy_by_block[b0][0]
        imag_by_block[b0] = 0
    # --- interleaving of basis states
    assign_sorted = [b for b, s in enumerate(blocks) for _ in range(s)]
    perm = draw(st.permutations(range(N))) if draw(st.booleans()) else list(range(N))
    assign = [assign_sorted[p] for p in perm]
    counters = [0] * n_blocks
    energy, eimag = [], []
    for b in assign:
        energy.append(energy_by_block[b][counters[b]] + offset)
        eimag.append(imag_by_block[b] + imag_rel_by_block[b][counters[b]])
        counters[b] += 1
    if all(e == 0 for e in energy) and all(e == 0 for e in eimag):
        energy = [e + eden for e in energy]  # an all-zero H_0 diagonal is rejected by design
    # --- perturbation terms
    cplx = draw(st.booleans()) and not int_dtype
    den = 1 if int_dtype else draw(st.sampled_from([1, 2, 2, 4]))
    deep3 = False
    if max_K is None:
        max_K = {1: 4, 2: 3, 3: 3}[n_params] if tier == "quick" else {1: 5, 2: 4, 3: 3}[n_params]
        # three parameters at total order 4 (the first order with three non-zero entries and a repeated one, (2,1,1))
        # are affordable for small matrices only
        deep3 = n_params == 3 and N <= 4 and rep != "sympy"
    if rep == "sympy":
        max_K = min(max_K, 3)
    K = draw(st.integers(min(min_K, max_K), max_K))
    if deep3 and draw(st.booleans()):
        K = 4
    orders = [tuple(int(i == k) for i in range(n_params)) for k in range(n_params)]
    if draw(st.booleans()):
        extra = [o for o in itertools.product(range(4), repeat=n_params) if 2 <= sum(o) <= 3]
        for o in draw(st.lists(st.sampled_from(extra), max_size=2, unique=True)):
            orders.append(o)
    ent = st.integers(-4, 4)
    terms = {}
    for o in orders:
        re = [[draw(ent) for _ in range(N)] for _ in range(N)]
        im = [[draw(ent) if cplx else 0 for _ in range(N)] for _ in range(N)]
        # independently drop whole blocks (exercises the `zero` sentinel paths)
        drop = {(a, b) for a in range(n_blocks) for b in range(n_blocks) if draw(st.integers(0, 3)) == 0}
        M = [[[0, 0] for _ in range(N)] for _ in range(N)]
        for i in range(N):
            for j in range(N):
                bi, bj = assign[i], assign[j]
                if hermitian:
                    if i > j:
                        continue
                    key = (min(bi, bj), max(bi, bj))
                    if key in drop:
                        continue
                    if i == j:
                        M[i][i] = [re[i][i], 0]
                    else:
                        M[i][j] = [re[i][j], im[i][j]]
                        M[j][i] = [re[i][j], -im[i][j]]
                else:
                    if (bi, bj) in drop:
                        continue
                    M[i][j] = [re[i][j], im[i][j]]
        terms[",".join(map(str, o))] = M
    # --- selection
    kind = draw(st.sampled_from(selections))
    selection = {"kind": kind, "full": [], "masks": {}}
    if safe_bias and draw(st.integers(0, 2)) > 0:
        # "safe" class of known finding K1: every kept off-diagonal pair is degenerate.  All blocks with
        # distinct levels are diagonalised (tuple form, or an equivalent mask eliminating every
        # non-degenerate pair).
        st_b = [[i for i in range(N) if assign[i] == b] for b in range(n_blocks)]
        lv = lambda i: (energy[i], eimag[i])  # noqa: E731
        need = [b for b in range(n_blocks) if len({lv(i) for i in st_b[b]}) > 1]
        extra = draw(st.sets(st.integers(0, n_blocks - 1)))
        chosen = sorted(set(need) | (extra if need or draw(st.booleans()) else set()))
        if not chosen:
            selection = {"kind": "none", "full": [], "masks": {}}
        elif draw(st.booleans()):
            selection = {"kind": "full", "full": chosen, "masks": {}}
        else:
            masks = {}
            for b in chosen:
                sb = st_b[b]
                masks[str(b)] = [[int(x != y and lv(sb[x]) != lv(sb[y])) for y in range(len(sb))] for x in range(len(sb))]
            selection = {"kind": "mask", "full": [], "masks": masks}
        kind = "done"
    if kind == "full":
        selection["full"] = sorted(draw(st.sets(st.integers(0, n_blocks - 1), min_size=1)))
    elif kind == "mask":
        # half of the mask dictionaries name just one of the largest blocks (whatever its position): a genuinely partial
        # mask needs a block of size >= 3, and dictionaries whose keys are not 0..k-1 are a class of their own
        if draw(st.booleans()):
            big = [b for b in range(n_blocks) if blocks[b] == max(blocks)]
            masked = [draw(st.sampled_from(big))]
        else:
            masked = sorted(draw(st.sets(st.integers(0, n_blocks - 1), min_size=1)))
        for b in masked:
            s = blocks[b]
            states = [i for i in range(N) if assign[i] == b]
            mask = [[0] * s for _ in range(s)]
            for x in range(s):
                for y in range(x + 1, s):
                    same = energy[states[x]] == energy[states[y]] and eimag[states[x]] == eimag[states[y]]
                    if same:
                        continue
                    if hermitian:
                        if draw(st.booleans()):
                            mask[x][y] = mask[y][x] = 1
                    else:
                        # non-Hermitian masks may eliminate (x, y) without (y, x): none / both / one of the two
                        how = draw(st.sampled_from(["none", "both", "upper", "lower", "upper", "lower"]))
                        mask[x][y] = int(how in ("both", "upper"))
                        mask[y][x] = int(how in ("both", "lower"))
            selection["masks"][str(b)] = mask
    # "almost equal" class: levels that are degenerate for the library (|dE| < atol = 1e-12) without being bit-identical,
    # as eigenvalues coming out of a numerical diagonalisation are: the second and later members of every degenerate
    # group are handed over 2^-44 (5.7e-14) higher.  The oracles keep treating them as one level.
    ulp = bool(rep != "sympy" and not int_dtype and not far and draw(st.integers(0, 5)) == 0)
    more = {}
    if forms:
        # how the problem is handed to block_diagonalize: whole matrices + subspace_indices ("indices"), nested lists of
        # already separated blocks ("blocks"), or whole matrices + unit eigenvectors ("eigvecs"); sparse values as
        # scipy sparse arrays or (spmatrix) as scipy sparse *matrices*, whose `*` is a matrix product
        more = {"form": draw(st.sampled_from(forms)), "spmatrix": draw(st.booleans())}
    return {
        **more,
        "blocks": blocks,
        "assign": assign,
        "energy": energy,
        "eimag": eimag,
        "eden": eden,
        "n_params": n_params,
        "terms": terms,
        "den": den,
        "hermitian": hermitian,
        "selection": selection,
        "repr": rep,
        "K": K,
        "ref_shift": 4096 * 32 if far else 0,
        "int_dtype": bool(int_dtype),
        "ulp": ulp,
    }


# -------------------------------------------------------------------- materialising
def order_key(s):
    return tuple(int(x) for x in s.split(","))


def states_of(problem):
    """List, per block, of the basis-state indices (increasing) that belong to it."""
    return [[i for i, a in enumerate(problem["assign"]) if a == b] for b in range(len(problem["blocks"]))]


def energies(problem, exact=False):
    d = problem["eden"]
    if exact:
        return [GQ(Fraction(e, d), Fraction(im, d)) for e, im in zip(problem["energy"], problem["eimag"])]
    out = [complex(e / d, im / d) for e, im in zip(problem["energy"], problem["eimag"])]
    if all(v.imag == 0 for v in out):
        return [v.real for v in out]
    return out


def term_arrays(problem, exact=False):
    """dict order -> N x N oracle-side array (complex ndarray or GQ object array)."""
    den = problem["den"]
    out = {}
    for key, M in problem["terms"].items():
        N = len(M)
        if exact:
            A = gzeros((N, N))
            for i in range(N):
                for j in range(N):
                    A[i, j] = GQ(Fraction(M[i][j][0], den), Fraction(M[i][j][1], den))
        else:
            A = np.array([[complex(M[i][j][0], M[i][j][1]) / den for j in range(N)] for i in range(N)])
        out[order_key(key)] = A
    return out


def kept_mask(problem):
    """The oracle's own kept-mask S (recomputed from the description, never read from the library)."""
    N = len(problem["assign"])
    assign = problem["assign"]
    sel = problem["selection"]
    n_blocks = len(problem["blocks"])
    E = list(zip(problem["energy"], problem["eimag"]))
    S = np.zeros((N, N), dtype=bool)
    st_ = states_of(problem)
    full = set(sel["full"]) if sel["kind"] == "full" else set()
    if n_blocks == 1 and sel["kind"] == "none":
        full = {0}  # documented default: a single block is fully diagonalised
    for b, states in enumerate(st_):
        for x, i in enumerate(states):
            for y, j in enumerate(states):
                if sel["kind"] == "mask" and str(b) in sel["masks"]:
                    S[i, j] = not sel["masks"][str(b)][x][y]
                elif b in full:
                    S[i, j] = E[i] == E[j]
                else:
                    S[i, j] = True
    return S


def library_input(problem):
    """Build the arguments of block_diagonalize for this problem (dict-of-orders input, subspace_indices)."""
    import sympy
    from scipy import sparse

    rep = problem["repr"]
    if problem.get("form") == "symmatrix":
        # exact problems as ONE symbolic matrix, polynomial in the perturbation symbols (the library Taylor-expands it)
        problem = dict(problem, form="indices")
        if rep == "sympy":
            res = matrix_input(problem)
            if res is not None:
                return res
    n_params = problem["n_params"]
    zero = (0,) * n_params
    N = len(problem["assign"])
    den = problem["den"]
    ed = problem["eden"]
    cplx_e = any(problem["eimag"])
    if rep == "sympy":
        H0 = sympy.diag(*[sympy.Rational(e, ed) + sympy.I * sympy.Rational(im, ed) for e, im in zip(problem["energy"], problem["eimag"])])
        ham = {zero: H0}
        for key, M in problem["terms"].items():
            ham[order_key(key)] = sympy.Matrix(N, N, lambda i, j: sympy.Rational(M[i][j][0], den) + sympy.I * sympy.Rational(M[i][j][1], den))
    else:
        Ev = np.array(energies(problem))
        if problem.get("ulp"):
            seen_levels = set()
            Ev = Ev.copy()
            for q, lev in enumerate(zip(problem["assign"], problem["energy"], problem["eimag"])):
                if lev in seen_levels:
                    Ev[q] += 2.0**-44
                seen_levels.add(lev)
        as_int = bool(problem.get("int_dtype")) and not cplx_e and den == 1 and ed == 1
        H0 = np.diag(Ev)
        if as_int:
            H0 = np.diag(np.array(problem["energy"], dtype=np.int64))
        ham = {zero: sparse.csr_array(H0) if rep == "sparse" else H0}
        for key, M in problem["terms"].items():
            A = np.array([[complex(M[i][j][0], M[i][j][1]) / den for j in range(N)] for i in range(N)])
            if not np.any(A.imag) and not cplx_e:
                A = A.real.copy()
                if as_int:
                    A = A.astype(np.int64)
            ham[order_key(key)] = sparse.csr_array(A) if rep == "sparse" else A
    kwargs = {"subspace_indices": list(problem["assign"]), "hermitian": bool(problem["hermitian"])}
    form = problem.get("form", "indices")
    if rep == "sparse" and problem.get("spmatrix"):
        ham = {o: sparse.csr_matrix(M) for o, M in ham.items()}
    if form == "blocks":
        st_ = states_of(problem)
        nb = len(st_)
        if rep == "sympy":
            cut = lambda M, a, b: M.extract(a, b)  # noqa: E731
        elif rep == "sparse":
            cut = lambda M, a, b: M[a, :][:, b]  # noqa: E731
        else:
            cut = lambda M, a, b: M[np.ix_(a, b)]  # noqa: E731
        ham = {o: [[cut(M, st_[i], st_[j]) for j in range(nb)] for i in range(nb)] for o, M in ham.items()}
        kwargs.pop("subspace_indices")
    elif form == "eigvecs":
        kwargs.pop("subspace_indices")
        eye = sympy.eye(N) if rep == "sympy" else np.eye(N)
        kwargs["subspace_eigenvectors"] = [eye[:, s] for s in states_of(problem)]
    sel = problem["selection"]
    if sel["kind"] == "full":
        kwargs["fully_diagonalize"] = tuple(sel["full"])
    elif sel["kind"] == "mask":
        kwargs["fully_diagonalize"] = {int(b): np.array(m, dtype=bool) for b, m in sel["masks"].items()}
    return ham, kwargs


# --------------------------------------------------------------------- library side
class LibraryRun:
    """block_diagonalize on a problem; assembles full N x N matrices from the returned blocks."""

    def __init__(self, problem, ham=None, kwargs=None):
        import warnings

        from pymablock import block_diagonalize

        self.problem = problem
        self.states = states_of(problem)
        self.N = len(problem["assign"])
        if ham is None:
            ham, kwargs = library_input(problem)
        self.warnings = []
        with warnings.catch_warnings(record=True) as w:
            warnings.simplefilter("always")
            self.H_tilde, self.U, self.U_inv = block_diagonalize(ham, **kwargs)
        self.warnings += [str(x.message) for x in w]
        # symbolic-matrix input returns every element multiplied by the monomial of its order: substitute 1
        self.symbols = list(kwargs.get("symbols") or []) if kwargs else []

    def block(self, series, i, j, n):
        import warnings

        with warnings.catch_warnings(record=True) as w:
            warnings.simplefilter("always")
            v = series[(i, j) + tuple(n)]
        self.warnings += [str(x.message) for x in w]
        if self.symbols and hasattr(v, "subs"):
            v = v.subs({s: 1 for s in self.symbols})
        return v

    def full(self, series, n, exact=False):
        """Assemble element n of a series into an N x N oracle-side array."""
        from pymablock.series import one, zero

        N = self.N
        A = gzeros((N, N)) if exact else np.zeros((N, N), dtype=complex)
        for i, si in enumerate(self.states):
            for j, sj in enumerate(self.states):
                v = self.block(series, i, j, n)
                if v is zero:
                    continue
                if v is one:
                    if i != j:
                        raise ValueError("`one` returned on an off-diagonal block")
                    for a in si:
                        A[a, a] = GQ(1) if exact else 1.0
                    continue
                blk = to_oracle(v, exact)
                if blk.shape != (len(si), len(sj)):
                    raise ValueError(f"block ({i},{j}) has shape {blk.shape}, expected {(len(si), len(sj))}")
                for x, a in enumerate(si):
                    for y, b in enumerate(sj):
                        A[a, b] = blk[x, y]
        return A


def to_oracle(v, exact=False):
    """Convert a library value (ndarray / sparse / sympy Matrix) to an oracle-side 2-D array."""
    import sympy
    from scipy import sparse

    from .exact import from_sympy

    if sparse.issparse(v):
        v = v.toarray()
    if isinstance(v, sympy.MatrixBase):
        if exact:
            out = np.empty(v.shape, dtype=object)
            for i in range(v.rows):
                for j in range(v.cols):
                    out[i, j] = from_sympy(v[i, j])
            return out
        return np.array(v.evalf().tolist(), dtype=complex)
    arr = np.asarray(v)
    if exact:
        return garray(arr)
    return arr.astype(complex)


def maxabs(A):
    if A.dtype == object:
        return max((abs(x) for x in A.reshape(-1)), default=0.0)
    return float(np.abs(A).max()) if A.size else 0.0


def nonzero(A):
    if A.dtype == object:
        return any(bool(x) for x in A.reshape(-1))
    return bool(np.any(A))


def absmat(A):
    if A.dtype == object:
        out = np.empty(A.shape, dtype=float)
        for idx in np.ndindex(A.shape):
            out[idx] = abs(A[idx])
        return out
    return np.abs(A)


def matrix_input(problem):
    """The problem as ONE sympy Matrix that is a polynomial in perturbation symbols (+ kwargs incl. ``symbols``).

    Returns None if some parameter does not occur (the library rejects symbols that are absent from the matrix)."""
    import sympy

    N = len(problem["assign"])
    k = problem["n_params"]
    # names in REVERSE alphabetical order: the parameter order is given by `symbols=`, not by the names
    syms = [sympy.Symbol("%s_par" % "zyxwv"[j], real=True) for j in range(k)]
    den, ed = problem["den"], problem["eden"]
    H = sympy.diag(*[sympy.Rational(e, ed) + sympy.I * sympy.Rational(im, ed) for e, im in zip(problem["energy"], problem["eimag"])])
    for key, M in problem["terms"].items():
        mono = sympy.Integer(1)
        for s_, e_ in zip(syms, order_key(key)):
            mono = mono * s_**e_
        H = H + mono * sympy.Matrix(N, N, lambda i, j: sympy.Rational(M[i][j][0], den) + sympy.I * sympy.Rational(M[i][j][1], den))
    if any(s_ not in H.free_symbols for s_ in syms):
        return None
    _, kwargs = library_input(problem)
    kwargs["symbols"] = list(syms)
    return sympy.Matrix(H), kwargs


# ------------------------------------------------------------- oblique (biorthogonal) input frames
def frame_matrices(frame, N):
    """R = product of shears 1 + (c/2) e_a e_b^T and its exact inverse (all entries dyadic, so floats are exact)."""
    R, Rinv = np.eye(N), np.eye(N)
    for a, b, c in frame["shear"]:
        if a == b or a >= N or b >= N:
            continue
        S, Si = np.eye(N), np.eye(N)
        S[a, b], Si[a, b] = c / 2, -c / 2
        R, Rinv = R @ S, Si @ Rinv
    return R, Rinv


def frame_effective(problem, frame):
    """The problem actually posed when the library is given lab-frame matrices A_k = R T_k R^-1 and the pairs (R, L).

    With ``lab_hermitian`` the lab-frame perturbations are made Hermitian (A_k = M_k + M_k^dagger with M_k the drawn
    matrix), so the block-basis terms T_k = R^-1 A_k R replace the drawn ones (re-encoded over the denominator 64 den).
    """
    if not frame.get("lab_hermitian"):
        return problem
    N = len(problem["assign"])
    R, Rinv = frame_matrices(frame, N)
    den = problem["den"] * 64
    terms = {}
    arrays = term_arrays(problem)
    for key in problem["terms"]:
        A = arrays[order_key(key)]
        T = Rinv @ (A + A.conj().T) @ R * den
        Ti = np.round(T.real).astype(int), np.round(T.imag).astype(int)
        if np.abs(T - (Ti[0] + 1j * Ti[1])).max() != 0:
            raise HarnessError("frame_effective: transformed term is not exactly representable")
        terms[key] = [[[int(Ti[0][i, j]), int(Ti[1][i, j])] for j in range(N)] for i in range(N)]
    return dict(problem, terms=terms, den=den)


def frame_input(problem, frame):
    """block_diagonalize arguments in the lab frame: H_k = R T_k R^-1, blocks given by (R_i, L_i) pairs, L = R^-dagger."""
    from scipy import sparse

    N = len(problem["assign"])
    R, Rinv = frame_matrices(frame, N)
    L = Rinv.conj().T
    rep = problem["repr"]
    zero = (0,) * problem["n_params"]
    wrap = sparse.csr_array if rep == "sparse" else (lambda x: x)
    ham = {zero: wrap(R @ np.diag(np.array(energies(problem))) @ Rinv)}
    for o, T in term_arrays(problem).items():
        A = R @ T @ Rinv
        if not np.any(A.imag):
            A = A.real.copy()
        ham[o] = wrap(A)
    _, kwargs = library_input(dict(problem, form="indices"))
    kwargs.pop("subspace_indices")
    st_ = states_of(problem)
    kwargs["subspace_eigenvectors"] = [(R[:, s], L[:, s]) for s in st_]
    return ham, kwargs
