"""Reference solvers: unoptimised order-by-order solution of the *defining equations*.

Everything happens in the eigenbasis of H_0 = diag(E) on full N x N matrices, multiplying by
H_0 explicitly; no code is shared with pymablock.  ``S`` is the boolean mask of *kept*
matrix elements (it always contains the diagonal), ``R = ~S`` the eliminated ones.

Hermitian   : U^dagger U = 1, (U^dagger H U)_R = 0, anti-Hermitian part of U restricted to S = 0.
Non-Hermitian: G U = 1,        (G H U)_R = 0,        (U - G)_S = 0.
Modes: float (numpy complex arrays) and exact (object arrays of vlib.exact.GQ).
"""
from __future__ import annotations

import numpy as np

from .bootstrap import HarnessError
from .cauchy import orders_below, splits
from .exact import GQ, geye, gzeros


FLOAT_DTYPE = [complex]  # module-level switch: np.clongdouble gives the float reference ~3 more digits


def _kit(exact, N):
    if exact:
        return gzeros((N, N)), geye(N)
    return np.zeros((N, N), dtype=FLOAT_DTYPE[0]), np.eye(N, dtype=FLOAT_DTYPE[0])


def _diag(E, exact):
    N = len(E)
    Z, _ = _kit(exact, N)
    D = Z.copy()
    for i in range(N):
        D[i, i] = GQ.of(E[i]) if exact else FLOAT_DTYPE[0](E[i])
    return D


def _order_list(orders):
    """Downward closure of the requested orders, sorted by total degree."""
    need = set()
    for n in orders:
        need.update(orders_below(n))
    return sorted(need, key=lambda o: (sum(o), o))


def _dag(A):
    return A.conj().T


def _half(A, exact):
    return A / (GQ(2) if exact else 2.0)


def solve_hermitian(E, terms, S, orders, exact=False, selfcheck=True):
    """Return (U, Ht) as dicts multi-order -> N x N matrix (U_0 = 1)."""
    N = len(E)
    S = np.asarray(S, dtype=bool)
    R = ~S
    n_params = len(next(iter(orders)))
    zero = (0,) * n_params
    Z, I = _kit(exact, N)
    H = {zero: _diag(E, exact)}
    for o, m in terms.items():
        if tuple(o) != zero:
            H[tuple(o)] = m
    Ev = np.array([GQ.of(e) if exact else FLOAT_DTYPE[0](e) for e in E], dtype=object if exact else FLOAT_DTYPE[0])
    dE = Ev[:, None] - Ev[None, :]
    sE = Ev[:, None] + Ev[None, :]
    U, Ht = {zero: I}, {}
    for n in _order_list(orders):
        if n == zero:
            Ht[n] = H[zero].copy()
            continue
        C = Z.copy()
        for m, p in splits(n, 2):
            if m == zero or p == zero:
                continue
            C = C + _dag(U[m]) @ U[p]
        W = -_half(C, exact)
        K = Z.copy()
        for m, p, q in splits(n, 3):
            if m == n or q == n or p not in H:
                continue
            K = K + _dag(U[m]) @ H[p] @ U[q]
        V = Z.copy()
        V[R] = -(sE[R] * W[R] + K[R]) / dE[R]
        U[n] = W + V
        T = Z.copy()
        for m, p, q in splits(n, 3):
            if p in H:
                T = T + _dag(U[m]) @ H[p] @ U[q]
        Ht[n] = T
        if selfcheck:
            _selfcheck(T[R], T, exact, f"hermitian reference: eliminated part of H_tilde at order {n}")
    return U, Ht


def solve_nonhermitian(E, terms, S, orders, exact=False, selfcheck=True):
    """Return (U, G, Ht): U, its inverse G, and G H U (U_0 = G_0 = 1)."""
    N = len(E)
    S = np.asarray(S, dtype=bool)
    R = ~S
    n_params = len(next(iter(orders)))
    zero = (0,) * n_params
    Z, I = _kit(exact, N)
    H0 = _diag(E, exact)
    H = {zero: H0}
    for o, m in terms.items():
        if tuple(o) != zero:
            H[tuple(o)] = m
    Ev = np.array([GQ.of(e) if exact else complex(e) for e in E], dtype=object if exact else complex)
    dE = Ev[:, None] - Ev[None, :]
    U, G, Ht = {zero: I}, {zero: I}, {}
    for n in _order_list(orders):
        if n == zero:
            Ht[n] = H0.copy()
            continue
        C = Z.copy()
        for m, p in splits(n, 2):
            if m == zero or p == zero:
                continue
            C = C + G[m] @ U[p]
        K = Z.copy()
        for m, p, q in splits(n, 3):
            if m == n or q == n or p not in H:
                continue
            K = K + G[m] @ H[p] @ U[q]
        # (G H U)_n = K + G_n H0 + H0 U_n with G_n = -C - U_n  =>  [H0, U_n] - C H0 + K
        Un = Z.copy()
        Un[S] = -_half(C, exact)[S]
        CH = C @ H0
        Un[R] = (CH[R] - K[R]) / dE[R]
        U[n] = Un
        G[n] = -C - Un
        T = Z.copy()
        for m, p, q in splits(n, 3):
            if p in H:
                T = T + G[m] @ H[p] @ U[q]
        Ht[n] = T
        if selfcheck:
            _selfcheck(T[R], T, exact, f"non-Hermitian reference: eliminated part of H_tilde at order {n}")
    return U, G, Ht


def _selfcheck(part, whole, exact, what):
    if part.size == 0:
        return
    if exact:
        if any(bool(x) for x in part.reshape(-1)):
            raise HarnessError(f"{what} is not zero (oracle bug)")
    else:
        scale = max(1.0, float(np.abs(whole).max()))
        if float(np.abs(part).max()) > 1e-7 * scale:
            raise HarnessError(f"{what} is {np.abs(part).max():.2e} (scale {scale:.2e}); oracle bug or ill-conditioned case")


def rayleigh_schroedinger(E, terms, level, orders, exact=False):
    """Textbook Rayleigh-Schroedinger eigenvalue series of a non-degenerate level (intermediate normalisation).

    Returns dict multi-order -> energy coefficient.  H(lambda) = diag(E) + sum_p lambda^p terms[p].
    """
    N = len(E)
    n_params = len(next(iter(orders)))
    zero = (0,) * n_params
    one = GQ(1) if exact else 1.0
    nul = GQ(0) if exact else 0.0
    Ev = [GQ.of(e) if exact else complex(e) for e in E]
    V = {tuple(o): m for o, m in terms.items() if tuple(o) != zero}
    psi = {zero: np.array([one if i == level else nul for i in range(N)], dtype=object if exact else complex)}
    en = {zero: Ev[level]}
    for n in _order_list(orders):
        if n == zero:
            continue
        # energy: <k| sum_p V_p |psi_{n-p}>
        e = nul
        rhs = np.array([nul] * N, dtype=object if exact else complex)
        for p, m in V.items():
            rest = tuple(a - b for a, b in zip(n, p))
            if min(rest) < 0:
                continue
            vec = m @ psi[rest]
            e = e + vec[level]
            rhs = rhs + vec
        en[n] = e
        for m_, q in splits(n, 2):
            if m_ == zero:
                continue
            rhs = rhs - en[m_] * psi[q] if q != n else rhs
        new = np.array([nul] * N, dtype=object if exact else complex)
        for l in range(N):
            if l != level:
                new[l] = rhs[l] / (Ev[level] - Ev[l])
        psi[n] = new
    return en
