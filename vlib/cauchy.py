"""Independent multivariate Cauchy algebra (shares no code with pymablock).

Series are plain dicts ``{multi_order(tuple): value}`` of full matrices (numpy arrays for
float mode, sympy Matrices or object arrays for exact mode); a missing key is an absent
(zero) term.
"""
from __future__ import annotations

import itertools


def orders_upto(n_params: int, total: int):
    """All multi-orders with total degree <= total, sorted by (degree, lexicographic)."""
    out = [o for o in itertools.product(range(total + 1), repeat=n_params) if sum(o) <= total]
    return sorted(out, key=lambda o: (sum(o), o))


def orders_below(n):
    """All multi-orders m <= n componentwise."""
    return list(itertools.product(*[range(x + 1) for x in n]))


def splits(n, k):
    """All ordered k-tuples of multi-orders that sum to n."""
    if k == 1:
        yield (tuple(n),)
        return
    for first in itertools.product(*[range(x + 1) for x in n]):
        rest = tuple(a - b for a, b in zip(n, first))
        for tail in splits(rest, k - 1):
            yield (tuple(first),) + tail


def product(factors, n, matmul=None, absval=None):
    """Order-n term of the Cauchy product of dict-series.  Returns (value or None, magnitude or None).

    ``absval``: optional function giving the elementwise magnitude matrix of a value; when given the
    same sum over magnitudes is returned as second result (used to scale float tolerances).
    """
    if matmul is None:
        matmul = lambda a, b: a @ b  # noqa: E731
    total = None
    mag = None
    for split in splits(n, len(factors)):
        vals = []
        for f, m in zip(factors, split):
            v = f.get(m)
            if v is None:
                vals = None
                break
            vals.append(v)
        if vals is None:
            continue
        acc = vals[0]
        for v in vals[1:]:
            acc = matmul(acc, v)
        total = acc if total is None else total + acc
        if absval is not None:
            macc = absval(vals[0])
            for v in vals[1:]:
                macc = macc @ absval(v)
            mag = macc if mag is None else mag + macc
    return total, mag
