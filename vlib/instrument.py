"""Instrumentation through public API only: logging / fault-injecting Hamiltonian series, solver wrappers and
an ndarray subclass whose matrix products tick a shared counter."""
from __future__ import annotations

import numpy as np

from .gen_matrix import energies, order_key, states_of


class Tick:
    """Shared callback counter with an optional injected fault at the k-th tick."""

    def __init__(self, fault_at=None, exc_factory=None, kinds=("eval", "solve", "matmul")):
        self.count = 0
        self.fault_at = fault_at
        self.exc_factory = exc_factory
        self.kinds = kinds
        self.events = []  # (kind, detail)
        self.fired = False

    def tick(self, kind, detail=None):
        if kind not in self.kinds:
            return
        self.count += 1
        self.events.append((kind, detail))
        if self.fault_at is not None and self.count == self.fault_at and not self.fired:
            self.fired = True
            raise self.exc_factory()


class FaultArray(np.ndarray):
    """ndarray whose @ products tick the counter stored in the class attribute ``ticker``."""

    ticker = None
    __array_priority__ = 100

    def __matmul__(self, other):
        if not isinstance(other, np.ndarray):
            # sparse arrays, LinearOperators (implicit mode): the other operand knows how to multiply; the product is
            # then no longer one of "the multiplication of elements" callbacks this class stands for
            return NotImplemented if hasattr(other, "__rmatmul__") else np.asarray(self) @ other
        if FaultArray.ticker is not None:
            FaultArray.ticker.tick("matmul")
        return np.asarray(self).__matmul__(np.asarray(other)).view(FaultArray)

    def __rmatmul__(self, other):
        if not isinstance(other, np.ndarray):
            return NotImplemented if hasattr(other, "__matmul__") and not isinstance(other, (list, tuple)) else other @ np.asarray(self)
        if FaultArray.ticker is not None:
            FaultArray.ticker.tick("matmul")
        return np.asarray(other).__matmul__(np.asarray(self)).view(FaultArray)


def full_terms(problem):
    """dict order -> full N x N complex ndarray (including the zeroth order H_0 = diag(E))."""
    den = problem["den"]
    out = {}
    for key, M in problem["terms"].items():
        A = np.array([[complex(e[0], e[1]) for e in row] for row in M]) / den
        out[order_key(key)] = A
    E = np.array(energies(problem), dtype=complex)
    out[(0,) * problem["n_params"]] = np.diag(E)
    return out


def logged_hamiltonian(problem, form="blocked", log=None, poison=None, ticker=None, array_cls=None, symbolic=False):
    """Build a user-defined Hamiltonian BlockSeries for ``problem``.

    form     : "blocked" (shape (nb, nb), elements are blocks) or "scalar" (shape (), elements are N x N matrices,
               to be split by subspace_indices)
    log      : list that receives every index passed to eval (tuples of python ints)
    poison   : function(order tuple) -> bool; evaluation of such an order raises AssertionError
    ticker   : Tick instance; every eval ticks it with kind "eval"
    array_cls: optional ndarray subclass for the returned numeric elements
    symbolic : return sympy matrices instead of numpy arrays
    Returns (H, kwargs for block_diagonalize).
    """
    import sympy

    from pymablock.series import BlockSeries, zero

    terms = full_terms(problem)
    st_ = states_of(problem)
    nb = len(st_)
    real = not any(np.any(A.imag) for A in terms.values())

    def conv(A):
        if symbolic:
            return sympy.Matrix(A.shape[0], A.shape[1], lambda a, b: sympy.nsimplify(A[a, b].real, rational=True) + sympy.I * sympy.nsimplify(A[a, b].imag, rational=True))
        A = A.real.copy() if real else A.copy()
        return A.view(array_cls) if array_cls is not None else A

    def ev_blocked(*index):
        idx = tuple(int(q) for q in index)
        if log is not None:
            log.append(idx)
        if ticker is not None:
            ticker.tick("eval", idx)
        o = idx[2:]
        if poison is not None and poison(o):
            raise AssertionError(f"Hamiltonian term {o} must not be evaluated")
        A = terms.get(o)
        if A is None:
            return zero
        blk = A[np.ix_(st_[idx[0]], st_[idx[1]])]
        if not np.any(blk):
            return zero
        return conv(blk)

    def ev_scalar(*index):
        o = tuple(int(q) for q in index)
        if log is not None:
            log.append(o)
        if ticker is not None:
            ticker.tick("eval", o)
        if poison is not None and poison(o):
            raise AssertionError(f"Hamiltonian term {o} must not be evaluated")
        A = terms.get(o)
        if A is None or not np.any(A):
            return zero
        return conv(A)

    kwargs = {"hermitian": bool(problem["hermitian"])}
    sel = problem["selection"]
    if sel["kind"] == "full":
        kwargs["fully_diagonalize"] = tuple(sel["full"])
    elif sel["kind"] == "mask":
        kwargs["fully_diagonalize"] = {int(b): np.array(m, dtype=bool) for b, m in sel["masks"].items()}
    if form == "blocked":
        H = BlockSeries(eval=ev_blocked, shape=(nb, nb), n_infinite=problem["n_params"], name="H_user")
    else:
        H = BlockSeries(eval=ev_scalar, shape=(), n_infinite=problem["n_params"], name="H_user")
        kwargs["subspace_indices"] = list(problem["assign"])
    return H, kwargs


def wrap_solver(inner, ticker):
    """solve_sylvester(Y, index) that ticks ``ticker`` (kind 'solve') and then calls the library's own solver."""

    def solve_sylvester(Y, index):
        ticker.tick("solve", tuple(int(q) for q in index))
        return inner(Y, index)

    return solve_sylvester


def implicit_kwargs(problem, kwargs):
    """Turn the kwargs of a whole-matrix ("scalar") input into implicit mode: unit eigenvectors of every block but the
    last one, no subspace_indices, no selection on the (implicit) last block; default (direct) solver."""
    kw = dict(kwargs)
    kw.pop("subspace_indices", None)
    st_ = states_of(problem)
    last = len(st_) - 1
    kw["subspace_eigenvectors"] = [np.eye(len(problem["assign"]))[:, s_] for s_ in st_[:-1]]
    fd = kw.get("fully_diagonalize")
    if isinstance(fd, dict):
        fd = {b_: m for b_, m in fd.items() if b_ != last}
    elif fd is not None:
        fd = tuple(b_ for b_ in fd if b_ != last)
    if fd:
        kw["fully_diagonalize"] = fd
    else:
        kw.pop("fully_diagonalize", None)
    return kw
