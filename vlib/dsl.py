"""Mini-language programs for C09: structured representation, rendering to source, reference interpreter.

A *program* (JSON) is
  {"inputs": ["A", ...],
   "series": [{"name": "S1", "start": None|0|1|"A_0", "marker": None|"hermitian"|"antihermitian",
               "clauses": [[cond, expr], ...]}, ...]           cond in {None, "diagonal", "offdiagonal"}
   "products": [{"terms": ["S1d", "S1"], "hermitian": bool}, ...],
   "outputs": [names]}
expr is a nested list:
  ["ref", name, adj]            "name" / "name".adj          (name may be a product name "P @ Q")
  ["neg", e] ["add", e1, e2] ["sub", e1, e2] ["div", e, int]
  ["call", f, e]                f(expression)   -> f(value, index)
  ["callS", f, name]            f("name")       -> f(series, index)
  ["ifz", flag, e]              zero if flag else e           flag: "flagA" (bool) or "flags[index[0]]"

The interpreter never parses Python and shares no code with pymablock.algorithm_parsing.
"""
from __future__ import annotations

import itertools
import linecache

import numpy as np

from .cauchy import splits

ZERO = "zero"  # reference-side sentinels
ONE = "one"


# --------------------------------------------------------------------------- rendering
def render_expr(e):
    t = e[0]
    if t == "ref":
        return f'"{e[1]}"' + (".adj" if e[2] else "")
    if t == "neg":
        return f"-({render_expr(e[1])})"
    if t == "add":
        return f"({render_expr(e[1])} + {render_expr(e[2])})"
    if t == "sub":
        return f"({render_expr(e[1])} - {render_expr(e[2])})"
    if t == "div":
        return f"({render_expr(e[1])}) / {e[2]}"
    if t == "call":
        return f"{e[1]}({render_expr(e[2])})"
    if t == "callS":
        return f'{e[1]}("{e[2]}")'
    if t == "ifz":
        return f"(zero if {e[1]} else {render_expr(e[2])})"
    raise AssertionError(e)


def render(prog, fname="algo"):
    L = [f"def {fname}():"]
    for s in prog["series"]:
        L.append(f'    with "{s["name"]}":')
        body = []
        if s["start"] is not None:
            body.append(f"start = {s['start']!r}" if isinstance(s["start"], int) else f'start = "{s["start"]}"')
        if s["marker"]:
            body.append(s["marker"])
        for cond, e in s["clauses"]:
            if cond is None:
                body.append(render_expr(e))
            else:
                body.append(f"if {cond}:\n            {render_expr(e)}")
        if not body:
            body = ["pass"]
        L += ["        " + b for b in body]
        L.append("")
    for p in prog["products"]:
        L.append(f'    with "{" @ ".join(p["terms"])}":')
        L.append("        " + ("hermitian" if p["hermitian"] else "pass"))
        L.append("")
    outs = ", ".join(f'"{o}"' for o in prog["outputs"])
    L.append(f"    return {outs}")
    return "\n".join(L) + "\n"


_counter = [0]


def compile_program(prog):
    """Render the program to source text, register it with linecache (inspect.getsource needs it) and exec it."""
    _counter[0] += 1
    fn = f"<verif_dsl_{_counter[0]}>"
    src = render(prog)
    linecache.cache[fn] = (len(src), None, src.splitlines(True), fn)
    ns = {}
    exec(compile(src, fn, "exec"), ns)  # noqa: S102
    return ns["algo"], src


# ---------------------------------------------------------------------- reference interpreter
def dag(x):
    if isinstance(x, str):
        return x
    return x.conj().T


def neg(x):
    return x if isinstance(x, str) and x == ZERO else -x


def add(a, b):
    if isinstance(a, str) and a == ZERO:
        return b
    if isinstance(b, str) and b == ZERO:
        return a
    if isinstance(a, str) or isinstance(b, str):
        raise ValueError("sum involving the identity sentinel")
    return a + b


class Reference:
    """Direct, unoptimised interpretation: memoised recursion, no deletion, brute-force products."""

    def __init__(self, prog, inputs, nb, n_inf, scope):
        self.prog, self.inputs, self.nb, self.n_inf, self.scope = prog, inputs, nb, n_inf, scope
        self.defs = {s["name"]: s for s in prog["series"]}
        self.prods = {" @ ".join(p["terms"]): p for p in prog["products"]}
        self.memo = {}
        self.uses = {}  # (name, idx) -> number of reads by series clauses (for the non-triviality rule)

    def get(self, name, idx):
        key = (name, idx)
        if key not in self.memo:
            self.memo[key] = self._get(name, idx)
        return self.memo[key]

    def _get(self, name, idx):
        i, j, o = idx[0], idx[1], idx[2:]
        if name in self.inputs:
            return self.inputs[name](idx)
        if name in self.prods:
            return self.product(self.prods[name]["terms"], idx)
        s = self.defs[name]
        if sum(o) == 0 and s["start"] is not None:
            if s["start"] == 0:
                return ZERO
            if s["start"] == 1:
                if i == j:
                    return ONE
            else:
                return self.inputs[s["start"][:-2]](idx)
        if s["marker"] and i > j:
            v = dag(self.get(name, (j, i) + o))
            return neg(v) if s["marker"] == "antihermitian" else v
        res = ZERO
        for cond, e in s["clauses"]:
            if cond == "diagonal":
                if i != j:
                    continue
                v = self.ev(e, idx, name)
                v = self.scope["diag"](v, idx) if "diag" in self.scope else v
            elif cond == "offdiagonal":
                if i != j:
                    v = self.ev(e, idx, name)
                elif self.scope.get("offdiag") is not None:
                    v = self.scope["offdiag"](self.ev(e, idx, name), idx)
                else:
                    continue
            elif cond == "lower":
                # an explicit `if lower:` section ends the evaluation for blocks below the diagonal
                # (this is how the hermitian / antihermitian markers are implemented, and it is documented)
                if i > j:
                    return add(res, self.ev(e, idx, name))
                continue
            else:
                v = self.ev(e, idx, name)
            res = add(res, v)
        return res

    def ev(self, e, idx, owner):
        t = e[0]
        if t == "ref":
            ii = (idx[1], idx[0]) + idx[2:] if e[2] else idx
            self.uses[(e[1], ii)] = self.uses.get((e[1], ii), 0) + 1
            v = self.get(e[1], ii)
            return dag(v) if e[2] else v
        if t == "neg":
            return neg(self.ev(e[1], idx, owner))
        if t in ("add", "sub"):
            a, b = self.ev(e[1], idx, owner), self.ev(e[2], idx, owner)
            return add(a, neg(b) if t == "sub" else b)
        if t == "div":
            v = self.ev(e[1], idx, owner)
            return v if isinstance(v, str) and v == ZERO else v / e[2]
        if t == "call":
            return self.scope[e[1]](self.ev(e[2], idx, owner), idx)
        if t == "callS":
            return self.scope[e[1]](lambda ix: self.get(e[2], tuple(int(q) for q in ix)), idx)
        if t == "ifz":
            flag = self.scope["flags"][idx[0]] if e[1].startswith("flags[") else self.scope[e[1]]
            return ZERO if flag else self.ev(e[2], idx, owner)
        raise AssertionError(e)

    def product(self, terms, idx):
        """Brute force over intermediate blocks and splittings; within a term the factors are evaluated in order of
        increasing total order and the term is abandoned at the first zero (a recurrence such as W = -U'^dagger U'/2
        only means something because U'_0 = 0 makes the term containing U'_n vanish without evaluating it)."""
        i, j, n = idx[0], idx[1], idx[2:]
        k = len(terms)
        res = ZERO
        for mids in itertools.product(*[range(self.nb)] * (k - 1)):
            blocks = (i,) + mids + (j,)
            for split in splits(n, k):
                vals = [None] * k
                dead = False
                for t in sorted(range(k), key=lambda t: (sum(split[t]), t)):
                    vals[t] = self.get(terms[t], (blocks[t], blocks[t + 1]) + split[t])
                    if isinstance(vals[t], str) and vals[t] == ZERO:
                        dead = True
                        break
                if dead:
                    continue
                acc = None
                for v in vals:
                    if isinstance(v, str):  # ONE
                        continue
                    acc = v if acc is None else acc @ v
                if acc is None:
                    acc = ONE
                if isinstance(res, str) and res == ZERO:
                    res = acc
                elif isinstance(res, str) or isinstance(acc, str):
                    raise ValueError("sum involving the identity sentinel")
                else:
                    res = res + acc
        return res
