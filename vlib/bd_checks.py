"""Sub-assertions shared by the matrix block-diagonalisation properties (C01-C05, C13, C15, C20)."""
from __future__ import annotations

import numpy as np

from . import cauchy, refsolve
from .exact import GQ, geye, gzeros
from .gen_matrix import LibraryRun, absmat, energies, kept_mask, maxabs, nonzero, term_arrays

RTOL = 1e-9


class Ctx:
    """One library run on one problem plus everything the oracles need."""

    def __init__(self, problem, out, ham=None, kwargs=None):
        self.problem = problem
        self.out = out
        self.exact = problem["repr"] == "sympy"
        self.n_params = problem["n_params"]
        self.zero = (0,) * self.n_params
        self.K = problem["K"]
        self.orders = cauchy.orders_upto(self.n_params, self.K)
        self.N = len(problem["assign"])
        self.E = energies(problem, self.exact)
        # The defining equations are invariant under H_0 -> H_0 - s: the reference solvers work with shifted energies
        # (they multiply by H_0 explicitly and would lose accuracy on a large common offset) and add s back to H_tilde_0.
        from fractions import Fraction

        sh = Fraction(problem.get("ref_shift", 0), problem["eden"])
        self.shift = GQ(sh) if self.exact else float(sh)
        self.E_ref = [e - self.shift for e in self.E]
        self.S = kept_mask(problem)
        self.R = ~self.S
        self.terms = term_arrays(problem, self.exact)
        self.H = dict(self.terms)
        D = gzeros((self.N, self.N)) if self.exact else np.zeros((self.N, self.N), dtype=complex)
        for i, e in enumerate(self.E):
            D[i, i] = e
        self.H[self.zero] = D
        self.ok = False
        self.run = None
        self._cache = {}
        try:
            self.run = LibraryRun(problem, ham, kwargs)
            self.ok = True
        except Exception as exc:  # noqa: BLE001
            out.fail("exception", f"block_diagonalize raised {type(exc).__name__}: {str(exc)[:300]}")

    # -- library values --------------------------------------------------------------
    def series(self, name):
        return {"H_tilde": self.run.H_tilde, "U": self.run.U, "U_inv": self.run.U_inv}[name]

    def get(self, name, n):
        key = (name, tuple(n))
        if key not in self._cache:
            self._cache[key] = self.run.full(self.series(name), n, self.exact)
        return self._cache[key]

    def all_orders(self, name):
        """dict order -> full matrix for every order up to K; None (and a failure) if the library raised."""
        res = {}
        for n in self.orders:
            try:
                res[n] = self.get(name, n)
            except Exception as exc:  # noqa: BLE001
                self.out.fail("exception", f"{name}{list(n)} raised {type(exc).__name__}: {str(exc)[:300]}")
                return None
        return res

    # -- comparison --------------------------------------------------------------------
    def close(self, A, B, scale):
        """A == B (exact) or |A - B| <= RTOL * max(1, scale) elementwise; returns (ok, worst deviation)."""
        if self.exact:
            bad = [(abs(a - b)) for a, b in zip(A.reshape(-1), B.reshape(-1)) if a != b]
            return (not bad), (max(bad) if bad else 0.0)
        if not (np.all(np.isfinite(A)) and np.all(np.isfinite(B))):
            return False, float("inf")
        dev = float(np.abs(A - B).max()) if A.size else 0.0
        return dev <= RTOL * max(1.0, scale), dev

    def is_zero(self, A, scale):
        if self.exact:
            bad = [abs(a) for a in A.reshape(-1) if bool(a)]
            return (not bad), (max(bad) if bad else 0.0)
        if not np.all(np.isfinite(A)):
            return False, float("inf")
        dev = float(np.abs(A).max()) if A.size else 0.0
        return dev <= RTOL * max(1.0, scale), dev

    def eye(self):
        return geye(self.N) if self.exact else np.eye(self.N, dtype=complex)

    def zeros(self):
        return gzeros((self.N, self.N)) if self.exact else np.zeros((self.N, self.N), dtype=complex)

    def product(self, factors, n):
        val, mag = cauchy.product(factors, n, absval=absmat)
        if val is None:
            return self.zeros(), 0.0
        return val, float(mag.max()) if mag is not None and mag.size else 0.0


def labels_for(problem):
    sel = problem["selection"]["kind"]
    if len(problem["blocks"]) == 1 and sel == "none":
        sel = "single-block-default-full"
    cplx = any(any(e[1] for row in M for e in row) for M in problem["terms"].values())
    labs = [
        f"blocks={len(problem['blocks'])}",
        f"params={problem['n_params']}",
        f"repr={problem['repr']}",
        f"selection={sel}",
        "complex" if cplx else "real",
        f"K={problem['K']}",
    ]
    st_ = [[i for i, a in enumerate(problem["assign"]) if a == b] for b in range(len(problem["blocks"]))]
    if 1 in problem["blocks"]:
        labs.append("has-size-1-block")
    if problem["assign"] != sorted(problem["assign"]):
        labs.append("interleaved-states")
    if any(len(k.replace(",", "")) and sum(int(x) for x in k.split(",")) >= 2 for k in problem["terms"]):
        labs.append("higher-order-input-terms")
    if any(e == 0 for e in problem["energy"]):
        labs.append("zero-energy-level")
    zb = [b for b, s in enumerate(st_) if all(problem["energy"][i] == 0 and problem["eimag"][i] == 0 for i in s)]
    if zb:
        labs.append("zero-H0-block")
        if any(b > 0 for b in zb):
            labs.append("zero-H0-block-not-first")
    if problem["selection"]["kind"] == "mask" and any(np.array(m).T.tolist() != m for m in problem["selection"]["masks"].values()):
        labs.append("asymmetric-mask")
    if problem.get("ref_shift"):
        labs.append("far-offset-spectrum")
    if problem.get("int_dtype"):
        labs.append("integer-dtype")
    if problem.get("ulp") and any(len({(problem["energy"][i], problem["eimag"][i]) for i in s_}) < len(s_) for s_ in st_):
        labs.append("almost-equal-levels")
    if "form" in problem:
        labs.append("form=" + (problem["form"] if problem["form"] != "symmatrix" or problem["repr"] == "sympy" else "indices"))
        if problem["repr"] == "sparse":
            labs.append("sparse=" + ("spmatrix" if problem.get("spmatrix") else "sparray"))
    if any(len({(problem["energy"][i], problem["eimag"][i]) for i in s}) < len(s) for s in st_):
        labs.append("degenerate-level-in-block")
    return labs


# ---------------------------------------------------------------------------- C01 / C05 core
def check_similarity(ctx, inverse_name="U_inv"):
    """(U_inv H U)_n equals H_tilde_n on kept elements and vanishes on eliminated ones."""
    out = ctx.out
    U = ctx.all_orders("U")
    Ui = ctx.all_orders(inverse_name) if U is not None else None
    Ht = ctx.all_orders("H_tilde") if Ui is not None else None
    if Ht is None:
        return None
    S, R = ctx.S, ctx.R
    seen_U2 = False
    for n in ctx.orders:
        T, scale = ctx.product([Ui, ctx.H, U], n)
        for name, A in (("U", U[n]), ("U_inv", Ui[n]), ("H_tilde", Ht[n])):
            if not ctx.exact and not np.all(np.isfinite(A)):
                out.fail("nonfinite", f"{name}{list(n)} contains NaN/inf")
                return None
        ok, dev = ctx.is_zero(Ht[n][R], scale)
        if not ok:
            out.fail("Htilde-eliminated-nonzero", f"H_tilde{list(n)} has an entry {dev:.3g} on an eliminated element")
            return None
        ok, dev = ctx.is_zero(T[R], scale)
        if not ok:
            out.fail("elimination", f"(U_inv H U){list(n)} is {dev:.3g} on an eliminated element (scale {scale:.3g})")
            return None
        ok, dev = ctx.close(T[S], Ht[n][S], scale)
        if not ok:
            out.fail("similarity", f"(U_inv H U){list(n)} differs from H_tilde by {dev:.3g} on a kept element (scale {scale:.3g})")
            return None
        if sum(n) >= 2 and nonzero(U[n]):
            seen_U2 = True
    couples = any(nonzero(t[R]) for t in ctx.terms.values()) if R.any() else False
    return {"U": U, "Ui": Ui, "Ht": Ht, "nontrivial": bool(R.any() and couples and seen_U2)}


def check_inverse(ctx, res):
    """U_inv U = U U_inv = identity as Cauchy products."""
    U, Ui = res["U"], res["Ui"]
    for n in ctx.orders:
        for name, fac in (("U_inv*U", [Ui, U]), ("U*U_inv", [U, Ui])):
            P, scale = ctx.product(fac, n)
            target = ctx.eye() if n == ctx.zero else ctx.zeros()
            ok, dev = ctx.close(P, target, scale)
            if not ok:
                ctx.out.fail("inverse", f"({name}){list(n)} deviates from {'1' if n == ctx.zero else '0'} by {dev:.3g}")
                return False
    return True


def check_adjoint_pairing(ctx):
    """Block (i,j,n) of the third series is the conjugate transpose of block (j,i,n) of U (sentinels pair);
    H_tilde(i,j,n) is the conjugate transpose of H_tilde(j,i,n)."""
    from pymablock.series import one, zero

    from .gen_matrix import to_oracle

    run = ctx.run
    nb = len(ctx.problem["blocks"])
    for n in ctx.orders:
        for i in range(nb):
            for j in range(nb):
                try:
                    a = run.block(run.U_inv, i, j, n)
                    b = run.block(run.U, j, i, n)
                    h1 = run.block(run.H_tilde, i, j, n)
                    h2 = run.block(run.H_tilde, j, i, n)
                except Exception as exc:  # noqa: BLE001
                    ctx.out.fail("exception", f"element ({i},{j}){list(n)} raised {type(exc).__name__}: {str(exc)[:200]}")
                    return False
                for what, x, y in (("U_inv vs U^dagger", a, b), ("H_tilde Hermiticity", h1, h2)):
                    if (x is zero) != (y is zero) or (x is one) != (y is one):
                        # a sentinel on one side must be matched by value on the other
                        xv = None if x is zero or x is one else to_oracle(x, ctx.exact)
                        yv = None if y is zero or y is one else to_oracle(y, ctx.exact)
                        other = xv if yv is None else yv
                        sentinel = x if yv is not None else y
                        if sentinel is zero and other is not None and not nonzero(other):
                            continue
                        ctx.out.fail("adjoint-pairing", f"{what}: sentinel mismatch at ({i},{j}){list(n)}: {x!r:.40} vs {y!r:.40}")
                        return False
                    if x is zero or x is one:
                        continue
                    xv, yv = to_oracle(x, ctx.exact), to_oracle(y, ctx.exact).conj().T
                    if xv.shape != yv.shape:
                        ctx.out.fail("adjoint-pairing", f"{what}: shapes {xv.shape} vs {yv.shape} at ({i},{j}){list(n)}")
                        return False
                    ok, dev = ctx.close(xv, yv, max(maxabs(xv), maxabs(yv)))
                    if not ok:
                        ctx.out.fail("adjoint-pairing", f"{what}: element ({i},{j}){list(n)} deviates by {dev:.3g}")
                        return False
    return True


def check_gauge(ctx, res):
    """(U - U_inv)/2 has no kept element."""
    for n in ctx.orders:
        A = res["U"][n] - res["Ui"][n]
        ok, dev = ctx.is_zero(A[ctx.S], max(maxabs(res["U"][n]), 1.0))
        if not ok:
            ctx.out.fail("gauge", f"(U - U_inv){list(n)} has a kept element of size {dev:.3g}")
            return False
    return True


def reference(ctx, hermitian=True):
    if hermitian:
        U, Ht = refsolve.solve_hermitian(ctx.E_ref, ctx.terms, ctx.S, ctx.orders, exact=ctx.exact)
        G = {n: u.conj().T for n, u in U.items()}
    else:
        U, G, Ht = refsolve.solve_nonhermitian(ctx.E_ref, ctx.terms, ctx.S, ctx.orders, exact=ctx.exact)
    Ht = dict(Ht)
    Ht[ctx.zero] = Ht[ctx.zero] + ctx.eye() * ctx.shift
    return {"U": U, "Ui": G, "Ht": Ht}


def check_reference(ctx, res, ref, upto=None):
    """Library output equals the reference solver's output."""
    for n in ctx.orders:
        if upto is not None and sum(n) > upto:
            continue
        # scale: magnitude of the triple product that defines H_tilde at this order
        _, scale = ctx.product([ref["Ui"], ctx.H, ref["U"]], n)
        for name, key in (("U", "U"), ("U_inv", "Ui"), ("H_tilde", "Ht")):
            ok, dev = ctx.close(res[key][n], ref[key][n], max(scale, maxabs(ref[key][n])))
            if not ok:
                ctx.out.fail(f"reference-{name}", f"{name}{list(n)} differs from the reference solver by {dev:.3g} (scale {scale:.3g})")
                return False
    return True


# ------------------------------------------------------------------------------- C04 core
def _poly_mul(P, Pmag, A, Amag, orders):
    """Truncated product of two polynomial matrices given as dicts order -> matrix (plus magnitudes)."""
    Q, Qmag = {}, {}
    for n in orders:
        acc = accm = None
        for m, a in A.items():
            rest = tuple(x - y for x, y in zip(n, m))
            if min(rest) < 0 or rest not in P:
                continue
            t = P[rest] @ a
            tm = Pmag[rest] @ Amag[m]
            acc = t if acc is None else acc + t
            accm = tm if accm is None else accm + tm
        if acc is not None:
            Q[n], Qmag[n] = acc, accm
    return Q, Qmag


def _trace(M):
    t = M[0, 0]
    for i in range(1, M.shape[0]):
        t = t + M[i, i]
    return t


def check_spectrum(ctx, Ht):
    """tr H(lambda)^k == tr H_tilde^(K)(lambda)^k modulo total degree K+1, k = 1..N (Newton: same char. polynomial)."""
    orders = ctx.orders
    A = {n: Ht[n] for n in orders if nonzero(Ht[n])}
    B = {n: m for n, m in ctx.H.items() if sum(n) <= ctx.K and nonzero(m)}
    Am = {n: absmat(m) for n, m in A.items()}
    Bm = {n: absmat(m) for n, m in B.items()}
    PA, PAm, PB, PBm = dict(A), dict(Am), dict(B), dict(Bm)
    for k in range(1, ctx.N + 1):
        if k > 1:
            PA, PAm = _poly_mul(PA, PAm, A, Am, orders)
            PB, PBm = _poly_mul(PB, PBm, B, Bm, orders)
        for n in orders:
            ta = _trace(PA[n]) if n in PA else (GQ(0) if ctx.exact else 0.0)
            tb = _trace(PB[n]) if n in PB else (GQ(0) if ctx.exact else 0.0)
            if ctx.exact:
                if ta != tb:
                    ctx.out.fail("power-sum", f"coefficient {list(n)} of tr H^{k}: exact {tb}, from H_tilde {ta}")
                    return False
            else:
                scale = max(1.0, float(np.trace(PAm[n])) if n in PAm else 0.0, float(np.trace(PBm[n])) if n in PBm else 0.0)
                if not np.isfinite(ta) or abs(ta - tb) > RTOL * scale:
                    ctx.out.fail("power-sum", f"coefficient {list(n)} of tr H^{k}: exact {tb:.12g}, from H_tilde {ta:.12g} (scale {scale:.3g})")
                    return False
    return True


def check_rayleigh_schroedinger(ctx, Ht):
    """For every level whose row/column keeps only the diagonal, diag(H_tilde_n) is the RS series of that level."""
    S = ctx.S
    E = ctx.E
    count = 0
    for i in range(ctx.N):
        if S[i].sum() != 1 or S[:, i].sum() != 1:
            continue
        if any(E[j] == E[i] for j in range(ctx.N) if j != i):
            continue
        rs = refsolve.rayleigh_schroedinger(ctx.E_ref, ctx.terms, i, ctx.orders, exact=ctx.exact)
        rs[ctx.zero] = rs[ctx.zero] + ctx.shift
        count += 1
        for n in ctx.orders:
            got = Ht[n][i, i]
            if ctx.exact:
                ok = got == rs[n]
            else:
                scale = max(1.0, maxabs(Ht[n]), abs(rs[n]))
                ok = abs(got - rs[n]) <= 1e-8 * scale
            if not ok:
                ctx.out.fail("rayleigh-schroedinger", f"level {i}: H_tilde{list(n)}[{i},{i}] = {got}, Rayleigh-Schroedinger coefficient {rs[n]}")
                return None
    return count
