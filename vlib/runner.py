"""Check runner: sharding, seeding, shrinking, evidence, violation / known-finding protocol.

Usage (through ./check):  check <ID> [--tier quick|thorough] [--replay FILE]
                                     [--workers N] [--budget N] [--keep-going]

Exit status: 0 property held on everything explored (KNOWN-FINDING lines allowed),
             1 at least one ``VIOLATION property=<id> replay=<path>`` line was printed,
             2 harness error (never reported as a violation).

A property module ``props/cXX.py`` provides

    ID, LEVEL, RULE, ASSUMPTIONS, BUDGET = {"quick": n, "thorough": n}
    strategy(tier) -> hypothesis strategy of JSON-serialisable cases
    check_case(case, enforce_all=False) -> Outcome

and optionally ``SHRINK_SECONDS = {"quick": s, "thorough": s}``, ``WORKERS``,
``EXTRA(tier, seed) -> dict`` (additional deterministic sweeps, merged into evidence).
"""
from __future__ import annotations

import argparse
import hashlib
import importlib
import json
import os
import subprocess
import sys
import tempfile
import time
import traceback
from dataclasses import dataclass, field

from . import bootstrap
from .bootstrap import VERIF_DIR, HarnessError

N_CORES = 16


# --------------------------------------------------------------------------- data
@dataclass
class Failure:
    sig: str  # stable identifier of the violated sub-assertion
    message: str = ""
    details: dict = field(default_factory=dict)


@dataclass
class Outcome:
    failures: list = field(default_factory=list)
    labels: list = field(default_factory=list)  # class labels of the case
    nontrivial: bool = False
    info: dict = field(default_factory=dict)  # small numbers worth aggregating (max)
    excluded: list = field(default_factory=list)  # ids of findings whose class this is

    def fail(self, sig, message="", **details):
        self.failures.append(Failure(sig, message, details))


def canonical(case) -> str:
    return json.dumps(case, sort_keys=True, separators=(",", ":"), default=str)


def case_hash(case) -> str:
    return hashlib.sha1(canonical(case).encode()).hexdigest()[:16]


def derive_seed(seed: int, prop: str, worker: int, salt: str = "") -> int:
    h = hashlib.sha256(f"{seed}:{prop}:{worker}:{salt}".encode()).digest()
    return int.from_bytes(h[:8], "big") % (2**63)


def load_module(prop: str):
    return importlib.import_module(f"props.{prop.lower()}")


def load_known(prop: str) -> list:
    path = os.path.join(VERIF_DIR, "known_findings.json")
    if not os.path.exists(path):
        return []
    data = json.load(open(path))
    return [e for e in data.get("findings", []) if prop in e.get("properties", [e.get("property")])]


# ------------------------------------------------------------------------- worker
def worker_main(prop, tier, seed, widx, n_workers, budget, outfile, shrink_seconds, only_sig):
    """Run one shard in this (fresh) process and write its statistics to outfile."""
    bootstrap.setup()
    import hypothesis
    from hypothesis import HealthCheck, Phase, given, settings

    mod = load_module(prop)
    stats = {
        "evaluations": 0,
        "nontrivial": {},  # hash -> 1
        "labels": {},
        "info": {},
        "samples": [],
        "excluded": {},
        "failures": {},  # sig -> {"case":..., "message":..., "count": n}
        "shrunk": None,
        "error": None,
    }
    largest = {"size": -1, "case": None}
    best = {"case": None, "failure": None}
    clock = {"t0": None}

    class Violation(Exception):
        pass

    class ShrinkTimeout(KeyboardInterrupt):
        pass

    def run(case, raising):
        # Shrinking is capped by wall time: when the cap is reached the run is aborted (a
        # KeyboardInterrupt subclass passes straight through Hypothesis) and the smallest failing
        # case seen so far is reported.
        if raising and clock["t0"] is not None and time.time() - clock["t0"] > shrink_seconds:
            raise ShrinkTimeout()
        out = mod.check_case(case)
        stats["evaluations"] += 1
        for lab in set(out.labels):
            stats["labels"][lab] = stats["labels"].get(lab, 0) + 1
        for k, v in out.info.items():
            # keys starting with "sum_" are totals, everything else is a maximum
            stats["info"][k] = stats["info"].get(k, 0) + v if k.startswith("sum_") else max(stats["info"].get(k, v), v)
        for fid in out.excluded:
            stats["excluded"][fid] = stats["excluded"].get(fid, 0) + 1
        if out.nontrivial:
            h = case_hash(case)
            if h not in stats["nontrivial"]:
                stats["nontrivial"][h] = 1
                if len(stats["samples"]) < 3:
                    stats["samples"].append(case)
                size = len(canonical(case))
                if size > largest["size"]:
                    largest.update(size=size, case=case)
        for f in out.failures:
            rec = stats["failures"].setdefault(
                f.sig, {"case": case, "message": f.message, "details": f.details, "count": 0}
            )
            rec["count"] += 1
            if len(canonical(case)) < len(canonical(rec["case"])):
                rec.update(case=case, message=f.message, details=f.details)
        if raising:
            hit = [f for f in out.failures if only_sig is None or f.sig == only_sig]
            if hit:
                if clock["t0"] is None:
                    clock["t0"] = time.time()
                if best["case"] is None or len(canonical(case)) <= len(canonical(best["case"])):
                    best.update(case=case, failure=hit[0])
                raise Violation(hit[0].sig)

    raising = only_sig is not None
    phases = [Phase.generate, Phase.shrink] if raising else [Phase.generate]
    st = settings(
        max_examples=max(1, budget),
        database=None,
        deadline=None,
        derandomize=False,
        report_multiple_bugs=False,
        suppress_health_check=list(HealthCheck),
        phases=phases,
        print_blob=False,
    )

    @hypothesis.seed(derive_seed(seed, prop, widx))
    @st
    @given(mod.strategy(tier))
    def test(case):
        run(case, raising)

    try:
        test()
    except (Violation, ShrinkTimeout):
        f = best["failure"]
        stats["shrunk"] = {
            "sig": f.sig,
            "message": f.message,
            "details": f.details,
            "case": best["case"],
        }
    except BaseException as exc:  # harness problem inside strategy / oracle
        if isinstance(exc, (KeyboardInterrupt, SystemExit)):
            raise
        stats["error"] = "".join(traceback.format_exception(type(exc), exc, exc.__traceback__))[-6000:]
    if largest["case"] is not None and largest["case"] not in stats["samples"]:
        stats["samples"].append(largest["case"])
    stats["nontrivial"] = sorted(stats["nontrivial"])
    with open(outfile, "w") as fh:
        json.dump(stats, fh, default=str)


def _spawn(prop, tier, seed, widx, n_workers, budget, outfile, shrink_seconds, only_sig):
    env = dict(os.environ)
    env["PYTHONHASHSEED"] = "0"
    env.setdefault("OMP_NUM_THREADS", "1")
    env.setdefault("OPENBLAS_NUM_THREADS", "1")
    env.setdefault("MKL_NUM_THREADS", "1")
    args = [
        sys.executable,
        "-m",
        "vlib.runner",
        "--worker",
        json.dumps([prop, tier, seed, widx, n_workers, budget, outfile, shrink_seconds, only_sig]),
    ]
    return subprocess.Popen(args, cwd=VERIF_DIR, env=env, stdout=subprocess.PIPE, stderr=subprocess.STDOUT)


def run_shards(prop, tier, seed, n_workers, budget, shrink_seconds, only_sig=None, workers=None):
    """Run the given shards (all by default) in parallel; return list of stats dicts."""
    tmp = tempfile.mkdtemp(prefix=f"verif_{prop}_")
    try:
        procs = []
        per = [budget // n_workers + (1 if w < budget % n_workers else 0) for w in range(n_workers)]
        for w in range(n_workers) if workers is None else workers:
            if per[w] == 0:
                continue
            out = os.path.join(tmp, f"w{w}.json")
            procs.append((w, out, _spawn(prop, tier, seed, w, n_workers, per[w], out, shrink_seconds, only_sig)))
        results = []
        for w, out, p in procs:
            log = p.communicate()[0].decode(errors="replace")
            if not os.path.exists(out):
                raise HarnessError(f"worker {w} died (rc={p.returncode}):\n{log[-4000:]}")
            st = json.load(open(out))
            st["worker"] = w
            if st["error"]:
                raise HarnessError(f"worker {w} harness error:\n{st['error']}\n{log[-2000:]}")
            results.append(st)
        return results
    finally:
        for f in os.listdir(tmp):
            os.unlink(os.path.join(tmp, f))
        os.rmdir(tmp)


# ------------------------------------------------------------------------- replay
def write_replay(prop, sig, message, details, case, seed, tier, found=True):
    d = os.path.join(VERIF_DIR, "replays", prop, "found") if found else os.path.join(VERIF_DIR, "replays", prop)
    os.makedirs(d, exist_ok=True)
    safe = "".join(c if c.isalnum() or c in "-_." else "_" for c in sig)[:60]
    path = os.path.join(d, f"{safe}-{case_hash(case)}.json")
    with open(path, "w") as fh:
        json.dump(
            {"property": prop, "sig": sig, "message": message, "details": details, "seed": seed, "tier": tier, "case": case},
            fh,
            indent=1,
            default=str,
        )
    return path


def replay_file(mod, path):
    doc = json.load(open(path))
    case = doc["case"] if "case" in doc else doc
    return mod.check_case(case, enforce_all=True), doc


# --------------------------------------------------------------------------- main
def main(argv=None):
    ap = argparse.ArgumentParser()
    ap.add_argument("prop", nargs="?")
    ap.add_argument("--tier", default=None)
    ap.add_argument("--replay")
    ap.add_argument("--workers", type=int, default=None)
    ap.add_argument("--budget", type=int, default=None)
    ap.add_argument("--worker")
    ap.add_argument("--fuzz-worker")
    ap.add_argument("--fuzz", type=int, default=None, help="executions of the coverage-guided stage (0 = skip)")
    ap.add_argument("--no-evidence", action="store_true")
    a = ap.parse_args(argv)
    if a.worker:
        worker_main(*json.loads(a.worker))
        return 0
    if a.fuzz_worker:
        from . import fuzz

        fuzz.fuzz_worker(*json.loads(a.fuzz_worker))
        return 0
    prop = a.prop.upper()
    tier = a.tier or os.environ.get("VERIF_TIER") or "quick"
    if tier not in ("quick", "thorough"):
        tier = "quick"
    try:
        seed = int(os.environ.get("VERIF_SEED", "1"))
    except ValueError:
        seed = 1
    try:
        return _main(prop, tier, seed, a)
    except HarnessError as exc:
        print(f"HARNESS-ERROR property={prop}: {exc}", file=sys.stderr)
        return 2
    except Exception:
        traceback.print_exc()
        print(f"HARNESS-ERROR property={prop}: unexpected exception in runner", file=sys.stderr)
        return 2


def _main(prop, tier, seed, a):
    t0 = time.time()
    os.environ["PYTHONHASHSEED"] = "0"
    bootstrap.setup()
    mod = load_module(prop)
    violations = []  # (sig, path)
    known_lines = []

    # -- single replay ---------------------------------------------------------
    if a.replay:
        out, doc = replay_file(mod, a.replay)
        for f in out.failures:
            print(f"  failed: {f.sig}: {f.message}")
        if out.failures:
            print(f"VIOLATION property={prop} replay={os.path.abspath(a.replay)}")
            return 1
        print(f"replay passes: {a.replay}")
        return 0

    # -- committed regression replays (fixed findings, earlier shrunk failures) --
    rdir = os.path.join(VERIF_DIR, "replays", prop)
    n_replays = 0
    if os.path.isdir(rdir):
        for name in sorted(os.listdir(rdir)):
            if not name.endswith(".json"):
                continue
            path = os.path.join(rdir, name)
            out, doc = replay_file(mod, path)
            n_replays += 1
            if out.failures:
                for f in out.failures:
                    print(f"  regression replay {name} failed: {f.sig}: {f.message}")
                violations.append((out.failures[0].sig, path))

    # -- open known findings: replay their recorded minimal case ----------------
    known = [k for k in load_known(prop) if k.get("status") == "open"]
    known_seen = {}
    for k in known:
        out = mod.check_case(k["minimal_case"], enforce_all=True)
        sigs = {f.sig for f in out.failures}
        if sigs & set(k["signature"]):
            line = f"KNOWN-FINDING: property={prop} {k['id']}: {k['what']}"
            known_lines.append(line)
            known_seen[k["id"]] = sorted(sigs & set(k["signature"]))
        extra = sigs - set(k["signature"])
        if extra:
            f = [f for f in out.failures if f.sig in extra][0]
            path = write_replay(prop, f.sig, f.message, f.details, k["minimal_case"], seed, tier)
            violations.append((f.sig, path))

    # -- generated search ------------------------------------------------------
    budget = a.budget or mod.BUDGET[tier]
    n_workers = a.workers or getattr(mod, "WORKERS", N_CORES)
    n_workers = max(1, min(n_workers, budget))
    shrink_seconds = getattr(mod, "SHRINK_SECONDS", {"quick": 25, "thorough": 150})[tier]
    shards = run_shards(prop, tier, seed, n_workers, budget, shrink_seconds)
    merged = merge(shards)

    # failures: shrink one representative per signature (first three signatures)
    if merged["failures"]:
        sigs = sorted(merged["failures"], key=lambda s: (-merged["failures"][s]["count"], s))
        no_shrink = bool(os.environ.get("VERIF_NO_SHRINK"))
        for sig in sigs[:3]:
            rec = merged["failures"][sig]
            w = rec["worker"]
            shrunk = None
            try:
                if no_shrink:
                    raise HarnessError("shrinking disabled by VERIF_NO_SHRINK")
                res = run_shards(prop, tier, seed, n_workers, budget, shrink_seconds, only_sig=sig, workers=[w])
                shrunk = res[0]["shrunk"]
            except HarnessError as exc:
                print(f"  (shrinking {sig} failed: {str(exc)[:300]})", file=sys.stderr)
            if shrunk is None:
                shrunk = {"sig": sig, "message": rec["message"], "details": rec["details"], "case": rec["case"]}
            path = write_replay(prop, sig, shrunk["message"], shrunk["details"], shrunk["case"], seed, tier)
            print(f"  failed: {sig} ({rec['count']} cases): {shrunk['message']}")
            violations.append((sig, path))
        for sig in sigs[3:]:
            rec = merged["failures"][sig]
            path = write_replay(prop, sig, rec["message"], rec["details"], rec["case"], seed, tier)
            print(f"  failed: {sig} ({rec['count']} cases, not shrunk): {rec['message']}")
            violations.append((sig, path))

    extra = {}
    if hasattr(mod, "EXTRA"):
        extra = mod.EXTRA(tier, seed) or {}
        for sig, message, case in extra.pop("failures", []):
            path = write_replay(prop, sig, message, {}, case, seed, tier)
            print(f"  failed: {sig}: {message}")
            violations.append((sig, path))

    # -- coverage-guided stage (atheris drives the same strategy and oracle) -----
    n_fuzz = a.fuzz if a.fuzz is not None else getattr(mod, "FUZZ", {}).get(tier, 0)
    if n_fuzz:
        from . import fuzz

        if not fuzz.available():
            extra["coverage_guided"] = {"status": "skipped: atheris is not importable (run ./setup.sh)"}
        else:
            fz = fuzz.run_fuzz(prop, tier, seed, max(1, min(n_workers, n_fuzz // 200 or 1)), n_fuzz)
            for sig in sorted(fz["failures"]):
                rec = fz["failures"][sig]
                path = write_replay(prop, sig, rec["message"], rec["details"], rec["case"], seed, tier)
                print(f"  failed (coverage-guided stage): {sig} ({rec['count']} cases): {rec['message']}")
                violations.append((sig, path))
            extra["coverage_guided"] = {
                "status": "ran",
                "engine": "atheris %s / libFuzzer on hypothesis fuzz_one_input, pymablock instrumented, empty corpus, -runs bound"
                % getattr(__import__("atheris"), "__version__", "3.x"),
                "executions": fz["executions"],
                "valid_cases_checked": fz["evaluations"],
                "distinct_nontrivial": len(fz["nontrivial"]),
                "classes": dict(sorted(fz["labels"].items())),
                "shards": fz["shards"],
                "max_edges_one_shard": fz["edges"],
                "max_features_one_shard": fz["features"],
                "corpus_units_total": fz["corpus_units"],
                "failure_signatures": sorted(fz["failures"]),
            }

    # -- evidence ---------------------------------------------------------------
    n_nontrivial = len(merged["nontrivial"])
    coverage = {
        "evaluations": merged["evaluations"],
        "distinct_nontrivial": n_nontrivial,
        "rule": mod.RULE,
        "samples": merged["samples"][:6],
        "classes": dict(sorted(merged["labels"].items())),
        "info": merged["info"],
        "excluded_by_finding": merged["excluded"],
        "known_findings_seen": known_seen,
        "regression_replays": n_replays,
        "workers": n_workers,
        "budget_cases": budget,
        "generator": "hypothesis %s, @seed(sha256(VERIF_SEED:property:worker)), database=None, deadline=None"
        % __import__("hypothesis").__version__,
        "failure_signatures": sorted(merged["failures"]),
    }
    coverage.update(getattr(mod, "COVERAGE_EXTRA", {}))
    coverage.update(extra)
    evidence = {
        "property_id": prop,
        "tier": tier,
        "seed": seed,
        "level": mod.LEVEL,
        "coverage": coverage,
        "assumptions": list(getattr(mod, "ASSUMPTIONS", [])),
        "wall_s": round(time.time() - t0, 2),
        "violations": len(violations),
    }
    if not a.no_evidence:
        os.makedirs(os.path.join(VERIF_DIR, "evidence"), exist_ok=True)
        with open(os.path.join(VERIF_DIR, "evidence", f"{prop}.json"), "w") as fh:
            json.dump(evidence, fh, indent=1, default=str)

    for line in known_lines:
        print(line)
    if violations:
        for sig, path in violations:
            print(f"VIOLATION property={prop} replay={path}")
        return 1
    # vacuity guards (harness errors, not violations)
    if n_nontrivial < 2:
        raise HarnessError(f"only {n_nontrivial} non-trivial cases generated - generator is vacuous")
    need = getattr(mod, "REQUIRED_CLASSES", {}).get(tier, getattr(mod, "REQUIRED_CLASSES", {}).get("all", []))
    missing = [c for c in need if not merged["labels"].get(c)]
    if missing:
        raise HarnessError(f"required case classes never generated: {missing}")
    print(
        f"OK property={prop} tier={tier} seed={seed} cases={merged['evaluations']} "
        f"nontrivial={n_nontrivial}"
        + (f" fuzz_exec={extra['coverage_guided'].get('executions', 0)}" if "coverage_guided" in extra else "")
        + f" wall={evidence['wall_s']}s"
    )
    return 0


def merge(shards):
    m = {"evaluations": 0, "nontrivial": set(), "labels": {}, "info": {}, "samples": [], "excluded": {}, "failures": {}}
    for st in shards:
        m["evaluations"] += st["evaluations"]
        m["nontrivial"].update(st["nontrivial"])
        for k, v in st["labels"].items():
            m["labels"][k] = m["labels"].get(k, 0) + v
        for k, v in st["info"].items():
            m["info"][k] = m["info"].get(k, 0) + v if k.startswith("sum_") else max(m["info"].get(k, v), v)
        for k, v in st["excluded"].items():
            m["excluded"][k] = m["excluded"].get(k, 0) + v
        for sig, rec in st["failures"].items():
            cur = m["failures"].get(sig)
            if cur is None:
                m["failures"][sig] = dict(rec, worker=st["worker"])
            else:
                cur["count"] += rec["count"]
    # samples: round-robin over shards so that they are not all from worker 0
    pools = [list(st["samples"]) for st in shards]
    while any(pools) and len(m["samples"]) < 6:
        for p in pools:
            if p and len(m["samples"]) < 6:
                m["samples"].append(p.pop(0))
    return m


if __name__ == "__main__":
    sys.exit(main())
