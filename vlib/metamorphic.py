"""Helpers for the metamorphic properties C13 / C15: run the library on a problem and on a transformed problem,
and compare the assembled full matrices of H_tilde, U, U_inv."""
from __future__ import annotations

import numpy as np

from . import bd_checks
from .gen_matrix import absmat, maxabs
from .runner import Outcome

NAMES = (("H_tilde", "Ht"), ("U", "U"), ("U_inv", "Ui"))


def outputs(problem, out, what, ham=None, kwargs=None, order=None):
    """All three output series of a problem as dicts order -> full matrix; None on library exception.

    ``order`` (a permutation of 0, 1, 2) is the order in which the three series are swept (default H_tilde, U, U_inv)."""
    sub = Outcome()
    ctx = bd_checks.Ctx(problem, sub, ham, kwargs)
    res = {}
    if ctx.ok:
        for name, key in (NAMES if order is None else [NAMES[i] for i in order]):
            res[key] = ctx.all_orders(name)
            if res[key] is None:
                break
    if sub.failures:
        out.fail("exception", f"{what}: {sub.failures[0].message}")
        return None, None
    return ctx, res


def scale_of(ctx, res, n):
    """Magnitude of the triple product that defines H_tilde at order n (rounding scale of the computation)."""
    _, scale = ctx.product([res["Ui"], ctx.H, res["U"]], n)
    return max(1.0, scale)


def compare(ctx, out, sig, what, got, expected, scale):
    """got == expected (exact mode) or within 1e-9 * scale; records a failure otherwise."""
    ok, dev = ctx.close(got, expected, max(scale, maxabs(expected)))
    if not ok:
        out.fail(sig, f"{what}: deviation {dev:.3g} (scale {scale:.3g})")
    return ok


def zeros_like_ctx(ctx, N=None):
    from .exact import gzeros

    N = ctx.N if N is None else N
    return gzeros((N, N)) if ctx.exact else np.zeros((N, N), dtype=complex)
