#!/venv/bin/python
"""Merge the verification / catch results into seeded/<name>/meta.json and print the catch table (markdown)."""
import json, os, re, glob
V = "/verif/seeded"
own = {}
for line in open(os.path.join(V, "MATRIX.log")):
    m = re.match(r"(\S+) SUMMARY (.*)", line.strip())
    if m:
        own[m.group(1)] = dict(x.split("=") for x in m.group(2).split())
cross = {}
if os.path.exists(os.path.join(V, "RESULTS.log")):
    for line in open(os.path.join(V, "RESULTS.log")):
        m = re.match(r"(\S+) :: .* :: SUMMARY (.*)", line.strip())
        if m:
            cross.setdefault(m.group(1), {}).update(dict(x.split("=") for x in m.group(2).split()))
extra = {}  # results of runs done while building (section 11.5 / matrix2.log)
extra_file = os.path.join(V, "EXTRA.json")
if os.path.exists(extra_file):
    extra = json.load(open(extra_file))
rows = []
for d in sorted(glob.glob(os.path.join(V, "C*"))):
    n = os.path.basename(d)
    meta = json.load(open(os.path.join(d, "meta.json")))
    res = {}
    res.update(extra.get(n, {}))
    res.update(cross.get(n, {}))
    res.update(own.get(n, {}))
    caught = sorted(k for k, v in res.items() if v == "CAUGHT")
    missed = sorted(k for k, v in res.items() if v == "missed")
    meta["verified"] = {
        "how": "tools/seed_verify.sh in a fresh scratch worktree of /repo (removed afterwards): patch applies, demo.py exits 0 without and non-zero with the change, tools/baseline.py reports 153/153 stable tests with the change",
        "checks_run": "tools/mut.py --checks <ids> --patch patch.diff (quick tier, VERIF_SEED=1, scratch copy selected with VERIF_REPO, removed afterwards)",
        "caught_by": caught,
        "not_caught_by": missed,
    }
    json.dump(meta, open(os.path.join(d, "meta.json"), "w"), indent=1)
    rows.append((n, meta.get("summary", "")[:110].replace("|", "/"), ", ".join(caught) or "-", ", ".join(missed) or "-"))
print("| seed | change | caught by (quick tier) | run but not caught by |")
print("|------|--------|------------------------|-----------------------|")
for r in rows:
    print("| %s | %s | %s | %s |" % r)
