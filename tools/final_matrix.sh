#!/bin/bash
# run every seeded change against the check of its own property (quick tier, seed 1); append to seeded/MATRIX.log
cd /verif
: > seeded/MATRIX.log
for d in seeded/C*; do
  n=$(basename $d); id=${n:0:3}
  r=$(tools/mut.py --checks $id --patch $d/patch.diff | grep SUMMARY)
  echo "$n $r" | tee -a seeded/MATRIX.log
done
