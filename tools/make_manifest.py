#!/venv/bin/python
"""Regenerate MANIFEST.json from the property modules present in props/ (and validate it)."""
import importlib, json, os, sys

VERIF = os.path.dirname(os.path.dirname(os.path.abspath(__file__)))
sys.path.insert(0, VERIF)
props = [json.loads(l) for l in open(os.path.join(VERIF, "properties.jsonl"))]
checks, na = [], []
for p in props:
    pid = p["id"]
    path = os.path.join(VERIF, "props", pid.lower() + ".py")
    if not os.path.exists(path):
        na.append({"property_id": pid, "reason": "check not built yet in this round (planned in DESIGN.md section 6); nothing is claimed for it"})
        continue
    m = importlib.import_module("props." + pid.lower())
    checks.append({
        "property_id": pid,
        "quick_cmd": f"./check {pid} --tier quick",
        "thorough_cmd": f"./check {pid} --tier thorough",
        "evidence_file": f"/verif/evidence/{pid}.json",
        "replay_cmd_template": f"./check {pid} --replay {{path}}",
        "engine": "hypothesis-runner",
        "level_claimed": {"category": m.LEVEL, "text": m.LEVEL_TEXT, "design_ref": f"DESIGN.md section 6, {pid}"},
        "level_note": m.LEVEL_NOTE,
        "technique": m.TECHNIQUE,
    })
manifest = {
    "version": 1,
    "setup_cmd": "./setup.sh",
    "hooks": {
        "guard": "PYMABLOCK_VERIF",
        "enable": "no source hooks are needed: every observation point is public API; checks export PYMABLOCK_VERIF=1 for uniformity and import /repo's working tree fresh in every worker process",
        "baseline_off_cmd": "/venv/bin/python /verif/tools/baseline.py",
        "source_commits": [],
        "add_only": True,
    },
    "engines": [
        {"name": "hypothesis-runner", "path": "vlib/runner.py", "serves_properties": [c["property_id"] for c in checks],
         "kind_free_text": "Hypothesis 6.168 strategies sharded over 16 fresh worker processes, seeded from VERIF_SEED; per-property oracle modules in props/, shared oracles in vlib/"},
    ],
    "checks": checks,
    "notes": "All checks: exit 0 = held on everything explored; exit 1 + 'VIOLATION property=<id> replay=<path>'; exit 2 = harness error. KNOWN-FINDING lines come from known_findings.json. See DESIGN.md.",
    "not_applicable": na,
}
json.dump(manifest, open(os.path.join(VERIF, "MANIFEST.json"), "w"), indent=1)
try:
    import jsonschema
    jsonschema.validate(manifest, json.load(open("/root/.vp/MANIFEST.schema.json")))
    print("MANIFEST.json valid;", len(checks), "checks,", len(na), "not yet claimed")
except ImportError:
    print("MANIFEST.json written (jsonschema not available for validation)")
