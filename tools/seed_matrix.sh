#!/bin/bash
# tools/seed_matrix.sh "<seed names>" "<check ids comma separated>"  -> appends to /root/scratch/matrix.log
cd /verif
for s in $1; do
  echo "=== $s vs $2 $(date +%H:%M)"
  tools/mut.py --checks $2 --patch seeded/$s/patch.diff | grep -E "SUMMARY|failed:" | cut -c1-220
done
