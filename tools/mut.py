#!/venv/bin/python
"""Sensitivity helper: run checks against a mutated scratch copy of the repository.

  tools/mut.py --checks C19,C18 [--tier quick] --patch FILE.diff
  tools/mut.py --checks C19 --replace pymablock/series.py 'OLD' 'NEW'

The copy lives in a temporary directory outside /repo and /verif and is removed afterwards;
checks are pointed at it with VERIF_REPO.  Evidence files are not rewritten (--no-evidence).
"""
import argparse, os, shutil, subprocess, sys, tempfile

ap = argparse.ArgumentParser()
ap.add_argument("--checks", required=True)
ap.add_argument("--tier", default="quick")
ap.add_argument("--patch")
ap.add_argument("--replace", nargs=3, action="append", default=[])
ap.add_argument("--seed", default="1")
ap.add_argument("--budget")
ap.add_argument("--fuzz")
a = ap.parse_args()
verif = os.path.dirname(os.path.dirname(os.path.abspath(__file__)))
tmp = tempfile.mkdtemp(prefix="pymab_mut_")
try:
    shutil.copytree("/repo/pymablock", os.path.join(tmp, "pymablock"), ignore=shutil.ignore_patterns("__pycache__", "tests"))
    if a.patch:
        r = subprocess.run(["patch", "-p1", "-s", "-i", os.path.abspath(a.patch)], cwd=tmp)
        if r.returncode:
            sys.exit("patch failed")
    for f, old, new in a.replace:
        p = os.path.join(tmp, f)
        s = open(p).read()
        if s.count(old) != 1:
            sys.exit(f"{f}: pattern occurs {s.count(old)} times")
        open(p, "w").write(s.replace(old, new))
    env = dict(os.environ, VERIF_REPO=tmp, VERIF_SEED=a.seed, VERIF_NO_SHRINK="1")
    rc = {}
    for c in a.checks.split(","):
        cmd = [os.path.join(verif, "check"), c, "--tier", a.tier, "--no-evidence"]
        if a.budget:
            cmd += ["--budget", a.budget]
        if a.fuzz:
            cmd += ["--fuzz", a.fuzz]
        r = subprocess.run(cmd, env=env, stdout=subprocess.PIPE, stderr=subprocess.STDOUT, text=True)
        lines = r.stdout.strip().splitlines()
        print(f"== {c}: exit {r.returncode}")
        for l in lines[-6:]:
            print("   ", l[:300])
        rc[c] = r.returncode
    print("SUMMARY", " ".join(f"{c}={'CAUGHT' if v == 1 else 'missed' if v == 0 else 'ERROR'}" for c, v in rc.items()))
finally:
    shutil.rmtree(tmp, ignore_errors=True)
    # found replays written while testing mutants are scratch output
    for c in a.checks.split(","):
        shutil.rmtree(os.path.join(verif, "replays", c, "found"), ignore_errors=True)
