#!/venv/bin/python
"""tools/capture.py <ID> <patch.diff> <dest-name> <message> [sig]
Run the check (with shrinking) against a mutated scratch copy and store the shrunk failing case as a committed
regression replay replays/<ID>/<dest-name>.json.  Used to record the minimal cases of *fixed* findings."""
import glob, json, os, shutil, subprocess, sys, tempfile
pid, patch, dest, message = sys.argv[1:5]
want = sys.argv[5] if len(sys.argv) > 5 else None
verif = os.path.dirname(os.path.dirname(os.path.abspath(__file__)))
tmp = tempfile.mkdtemp(prefix="pymab_cap_")
try:
    shutil.copytree("/repo/pymablock", os.path.join(tmp, "pymablock"), ignore=shutil.ignore_patterns("__pycache__", "tests"))
    subprocess.run(["patch", "-p1", "-s", "-i", os.path.abspath(patch)], cwd=tmp, check=True)
    found = os.path.join(verif, "replays", pid, "found")
    shutil.rmtree(found, ignore_errors=True)
    subprocess.run([os.path.join(verif, "check"), pid, "--no-evidence"], env=dict(os.environ, VERIF_REPO=tmp), stdout=subprocess.DEVNULL)
    files = sorted(glob.glob(os.path.join(found, "*.json")))
    if want:
        files = [f for f in files if os.path.basename(f).startswith(want)]
    if not files:
        sys.exit("nothing found")
    doc = json.load(open(files[0]))
    doc["message"] = message + " | " + doc.get("message", "")
    out = os.path.join(verif, "replays", pid, dest + ".json")
    json.dump(doc, open(out, "w"), indent=1)
    print("wrote", out, "sig", doc["sig"], "size", len(json.dumps(doc["case"])))
    shutil.rmtree(found, ignore_errors=True)
finally:
    shutil.rmtree(tmp, ignore_errors=True)
