#!/venv/bin/python
"""Run the repository's pinned test-suite (guard OFF) and compare with BASELINE.json.

Usage: tools/baseline.py [--repo DIR] [-n WORKERS]
Exit 0 iff every test of BASELINE.stable_pass passes.
"""
import argparse, json, os, subprocess, sys, tempfile, xml.etree.ElementTree as ET

def main():
    ap = argparse.ArgumentParser()
    ap.add_argument("--repo", default="/repo")
    ap.add_argument("-n", default="8")
    ap.add_argument("--baseline", default="/root/.vp/BASELINE.json")
    a = ap.parse_args()
    env = dict(os.environ)
    env.pop("PYMABLOCK_VERIF", None)
    with tempfile.TemporaryDirectory() as td:
        xml = os.path.join(td, "junit.xml")
        cmd = ["/venv/bin/python", "-m", "pytest", "-q", "-p", "no:cacheprovider",
               "-o", "addopts=", "--timeout=900", "--continue-on-collection-errors",
               f"--junitxml={xml}"]
        if a.n != "0":
            cmd += ["-n", a.n]
        r = subprocess.run(cmd, cwd=a.repo, env=env, stdout=subprocess.PIPE, stderr=subprocess.STDOUT, text=True)
        if not os.path.exists(xml):
            print(r.stdout[-3000:]); return 2
        tail = "\n".join(r.stdout.splitlines()[-3:])
        passed = set()
        for tc in ET.parse(xml).getroot().iter("testcase"):
            if not any(ch.tag in ("failure", "error", "skipped") for ch in tc):
                passed.add(f"{tc.get('classname')}::{tc.get('name')}")
    want = set(json.load(open(a.baseline))["stable_pass"]) if os.path.exists(a.baseline) else None
    print(tail)
    if want is None:
        print(f"passed={len(passed)} (no BASELINE.json to compare)")
        return 0
    missing = sorted(want - passed)
    if missing and len(missing) <= 6:
        # a few stable tests draw unseeded random matrices (pytest-randomly reseeds every run) and fail now and then on
        # the pinned tree as well: re-run exactly the missing ones before reporting them
        ids = [m.replace(".", "/", 2).replace("::", ".py::", 1) if False else m for m in missing]
        node_ids = []
        for m in missing:
            mod, name = m.split("::", 1)
            node_ids.append(mod.replace(".", "/") + ".py::" + name)
        for _ in range(2):
            r2 = subprocess.run(["/venv/bin/python", "-m", "pytest", "-q", "-p", "no:cacheprovider", "-o", "addopts=", "--timeout=900", *node_ids],
                                cwd=a.repo, env=env, stdout=subprocess.PIPE, stderr=subprocess.STDOUT, text=True)
            if r2.returncode == 0:
                print(f"(re-run of {len(missing)} randomly seeded test(s) passed: {', '.join(missing)})")
                passed |= set(missing)
                missing = []
                break
    print(f"stable_pass={len(want)} passing_now={len(want & passed)} extra_passing={len(passed - want)}")
    for m in missing:
        print("MISSING", m)
    return 1 if missing else 0

if __name__ == "__main__":
    sys.exit(main())
