#!/bin/bash
# tools/process_seed.sh <name e.g. C05b> "<checks comma separated>"
# collect a sub-agent's deliverables, remove its worktree, verify them in a fresh worktree, run the named checks against the change
cd /verif
N=$1; CHECKS=$2; D=/tmp/wt/$N
if [ -d $D/_seed ]; then mkdir -p seeded/$N; cp $D/_seed/patch.diff $D/_seed/demo.py $D/_seed/meta.json seeded/$N/ 2>/dev/null; fi
git -C /repo worktree remove --force $D 2>/dev/null
V=$(tools/seed_verify.sh seeded/$N)
echo "$V"
R=$(tools/mut.py --checks $CHECKS --patch seeded/$N/patch.diff | grep SUMMARY)
echo "$N :: $V :: $R" >> seeded/RESULTS.log
echo "$R"
