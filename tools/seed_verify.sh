#!/bin/bash
# tools/seed_verify.sh <seed-dir>   e.g. seeded/C01a
# Confirms, in a fresh scratch worktree of /repo (removed afterwards), that the seeded change
#  (a) applies, (b) demo.py passes without it and fails with it, (c) the pinned suite still passes with it.
set -u
S=$(readlink -f "$1"); N=$(basename "$S"); WT=/tmp/wt/verify_$N
git -C /repo worktree remove --force $WT 2>/dev/null
git -C /repo worktree add -q $WT HEAD || exit 2
cp /repo/pymablock/_version.py $WT/pymablock/_version.py
mkdir -p $WT/_seed && cp $S/demo.py $WT/_seed/demo.py
cd $WT
/venv/bin/python _seed/demo.py >/tmp/wt/verify_$N.clean.log 2>&1; CLEAN=$?
git apply $S/patch.diff || { echo "$N: PATCH DOES NOT APPLY"; git -C /repo worktree remove --force $WT; exit 1; }
/venv/bin/python _seed/demo.py >/tmp/wt/verify_$N.mut.log 2>&1; MUT=$?
/venv/bin/python /verif/tools/baseline.py --repo $WT >/tmp/wt/verify_$N.base.log 2>&1; BASE=$?
# two randomly seeded stable tests (test_check_unitary / test_check_invertible) fail now and then even on the unmodified tree: retry once
if [ $BASE -ne 0 ] && ! grep MISSING /tmp/wt/verify_$N.base.log | grep -qv "test_check_unitary\|test_check_invertible"; then
  /venv/bin/python /verif/tools/baseline.py --repo $WT >/tmp/wt/verify_$N.base.log 2>&1; BASE=$?
fi
echo "$N: demo_clean_rc=$CLEAN demo_mutated_rc=$MUT baseline_rc=$BASE $(tail -1 /tmp/wt/verify_$N.base.log)"
cd /; git -C /repo worktree remove --force $WT
