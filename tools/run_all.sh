#!/bin/bash
# tools/run_all.sh [tier] [ids...]  - run registered checks sequentially, summarise
cd /verif
tier=${1:-quick}; shift
ids=${@:-$(ls props/c*.py | sed 's/.*\/c\([0-9]*\)\.py/C\1/')}
for id in $ids; do
  s=$(date +%s)
  out=$(./check $id --tier $tier 2>&1); rc=$?
  echo "$id rc=$rc $(( $(date +%s) - s ))s :: $(echo "$out" | tail -1 | cut -c1-200)"
  [ $rc -ne 0 ] && echo "$out" | tail -15
done
