#!/bin/bash
# Offline setup: make sure hypothesis is importable for /venv/bin/python (it normally is);
# otherwise install it from the local wheelhouse into /verif/.deps.  Nothing is fetched.
cd "$(dirname "$(readlink -f "$0")")" || exit 2
PY=/venv/bin/python
if ! PYTHONPATH=/verif/.deps "$PY" -c "import hypothesis" 2>/dev/null; then
  "$PY" -m pip install --no-index --find-links /opt/veriftools/wheels --target /verif/.deps hypothesis || exit 2
fi
# optional: atheris for the coverage-guided stage of some checks (skipped, and recorded as skipped, when unavailable)
if ! PYTHONPATH=/verif/.deps "$PY" -c "import atheris" 2>/dev/null; then
  "$PY" -m pip install --no-index --find-links /opt/veriftools/wheels --target /verif/.deps atheris >/dev/null 2>&1 || echo "setup: atheris not installed (coverage-guided stage will be skipped)"
fi
PYTHONPATH=/verif/.deps "$PY" -c "import hypothesis, numpy, scipy, sympy; print('setup ok: hypothesis', hypothesis.__version__)" || exit 2
mkdir -p evidence
