#!/bin/bash
# Offline setup: make sure hypothesis is importable for /venv/bin/python (it normally is);
# otherwise install it from the local wheelhouse into /verif/.deps.  Nothing is fetched.
cd "$(dirname "$(readlink -f "$0")")" || exit 2
PY=/venv/bin/python
if ! PYTHONPATH=/verif/.deps "$PY" -c "import hypothesis" 2>/dev/null; then
  "$PY" -m pip install --no-index --find-links /opt/veriftools/wheels --target /verif/.deps hypothesis || exit 2
fi
PYTHONPATH=/verif/.deps "$PY" -c "import hypothesis, numpy, scipy, sympy; print('setup ok: hypothesis', hypothesis.__version__)" || exit 2
mkdir -p evidence
